//! C20 — the kp command line program prints what the library computes.
//!
//! Oracle: a line model written from Rumination 003, `kp --help` and the property text:
//! parse the input text (blank lines and comments skipped, 1-4 columns, reals or
//! sexagesimal values, defaults 0/0/NaN, -z/-t), call the library in-process
//! (`Plain`, same definition, same direction(s)), format with the requested decimals
//! and dimension. kp (built from the working tree, run as a child process on generated
//! files in a per-case temporary directory) must print exactly the model's lines.
//! Generated: operations x input files x option sets x file splits / stdin, inputs
//! larger than one internal batch (25 000), invalid operations, unreadable files,
//! empty input, and hostile text (robustness: only "no panic" + line count).

use geodesy::prelude::*;
use proptest::prelude::*;
use serde::{Deserialize, Serialize};
use std::path::{Path, PathBuf};
use std::process::{Command, Stdio};
use std::sync::OnceLock;
use vcore::geo::*;
use vcore::*;

const BATCH: usize = 25_000;

// ---- input tokens -------------------------------------------------------------------

#[derive(Clone, Debug, Serialize, Deserialize, PartialEq, Eq, Hash)]
enum Tok {
    /// a real number in ordinary notation; value = Rust's `str::parse::<f64>`
    Num(String),
    /// [-]D[:M[:S]][NSEW]; value = sign * (D + (M + S/60)/60), sign flipped by S and W
    Sexa { neg: bool, d: String, m: Option<String>, s: Option<String>, suffix: Option<char> },
    /// the literal `NaN`
    NaN,
    /// anything else: the line still counts, its values are not compared
    Junk(String),
}

#[derive(Clone, Copy, Debug, PartialEq, Eq, PartialOrd, Ord)]
enum Mode {
    Exact,
    Approx,
    Unchecked,
}

impl Tok {
    fn text(&self) -> String {
        match self {
            Tok::Num(s) | Tok::Junk(s) => s.clone(),
            Tok::NaN => "NaN".into(),
            Tok::Sexa { neg, d, m, s, suffix } => {
                let mut t = String::new();
                if *neg {
                    t.push('-');
                }
                t.push_str(d);
                if let Some(m) = m {
                    t.push(':');
                    t.push_str(m);
                    if let Some(s) = s {
                        t.push(':');
                        t.push_str(s);
                    }
                }
                if let Some(c) = suffix {
                    t.push(*c);
                }
                t
            }
        }
    }

    /// The documented value of the token, and how strictly it may be compared.
    /// Exact: every natural evaluation order gives the same double (plain reals; sexagesimal
    /// values whose minute and second parts are dyadic fractions of a degree).
    fn value(&self) -> (f64, Mode) {
        match self {
            Tok::NaN => (f64::NAN, Mode::Exact),
            Tok::Junk(_) => (f64::NAN, Mode::Unchecked),
            Tok::Num(s) => match s.parse::<f64>() {
                Ok(v) => (v, Mode::Exact),
                Err(_) => (f64::NAN, Mode::Unchecked),
            },
            Tok::Sexa { neg, d, m, s, suffix } => {
                let p = |o: &Option<String>| -> Option<f64> {
                    match o {
                        None => Some(0.0),
                        Some(t) => t.parse::<f64>().ok(),
                    }
                };
                let (Ok(dv), Some(mv), Some(sv)) = (d.parse::<f64>(), p(m), p(s)) else {
                    return (f64::NAN, Mode::Unchecked);
                };
                if s.is_some() && m.is_none() {
                    return (f64::NAN, Mode::Unchecked);
                }
                let mut sign = if *neg { -1.0 } else { 1.0 };
                if matches!(suffix, Some('s' | 'S' | 'w' | 'W')) {
                    sign = -sign;
                }
                let v = sign * (dv.abs() + (mv + sv / 60.0) / 60.0);
                // m/60 = k/8 and s/3600 = k/256: all partial results are exact in binary
                let exact = (mv * 8.0) % 60.0 == 0.0 && (sv * 256.0) % 3600.0 == 0.0 && dv >= 0.0 && mv >= 0.0 && sv >= 0.0;
                (v, if exact { Mode::Exact } else { Mode::Approx })
            }
        }
    }
}

// ---- input lines --------------------------------------------------------------------

const SEPS: [&str; 4] = [" ", "  ", "\t", " \t "];
const LEADS: [&str; 3] = ["", "  ", "\t"];
const BLANKS: [&str; 4] = ["", "   ", "\t", " \t"];

#[derive(Clone, Debug, Serialize, Deserialize, PartialEq, Eq, Hash)]
enum Line {
    Blank(u8),
    /// whole-line comment: indent index, text after '#'
    Comment(u8, String),
    Data { toks: Vec<Tok>, sep: u8, lead: u8, trail: Option<String>, crlf: bool },
    /// raw bytes (invalid UTF-8 etc.): robustness only
    Raw(Vec<u8>),
}

impl Line {
    fn render(&self) -> (Vec<u8>, bool) {
        // returns (bytes without end of line, crlf?)
        match self {
            Line::Blank(k) => (BLANKS[*k as usize % BLANKS.len()].as_bytes().to_vec(), false),
            Line::Comment(ind, t) => (format!("{}#{}", LEADS[*ind as usize % LEADS.len()], t).into_bytes(), false),
            Line::Data { toks, sep, lead, trail, crlf } => {
                let sep = SEPS[*sep as usize % SEPS.len()];
                let mut s = String::from(LEADS[*lead as usize % LEADS.len()]);
                s.push_str(&toks.iter().map(|t| t.text()).collect::<Vec<_>>().join(sep));
                if let Some(t) = trail {
                    s.push_str(sep);
                    s.push('#');
                    s.push_str(t);
                }
                (s.into_bytes(), *crlf)
            }
            Line::Raw(b) => (b.clone(), false),
        }
    }
}

/// One coordinate line as the documentation reads it.
#[derive(Clone, Debug)]
struct Record {
    v: [f64; 4], // before -z / -t
    ncols: usize,
    mode: Mode,
    src: String,
}

fn record_of(toks: &[Tok], src: String) -> Record {
    let mut v = [0.0, 0.0, 0.0, f64::NAN];
    let mut mode = Mode::Exact;
    for (i, t) in toks.iter().enumerate() {
        let (x, m) = t.value();
        mode = mode.max(m);
        if i < 4 {
            v[i] = x;
        }
    }
    Record { v, ncols: toks.len(), mode, src }
}

// ---- options ------------------------------------------------------------------------

#[derive(Clone, Debug, Default, Serialize, Deserialize, PartialEq, Eq, Hash)]
struct Opts {
    z: Option<String>,
    t: Option<String>,
    d: Option<u8>,
    dim: Option<u8>,
    inv: bool,
    rt: bool,
    /// spelling bits: 1 long z, 2 joined z, 4 long t, 8 joined t, 16 long d, 32 joined d,
    /// 64 long D, 128 joined D, 256 long roundtrip
    style: u16,
    /// rotation of the option order
    order: u8,
    /// 0: options before the operation, 1: between operation and files, 2: after the files
    place: u8,
    /// `-o <file>` (documented, not implemented by kp): only generated together with invalid operations
    #[serde(default)]
    out: Option<String>,
}

fn value_opt(short: &str, long: &str, val: &str, is_long: bool, joined: bool) -> Vec<String> {
    let joined = joined || val.starts_with('-'); // clap needs `=` for values that look like options
    match (is_long, joined) {
        (true, true) => vec![format!("--{long}={val}")],
        (true, false) => vec![format!("--{long}"), val.to_string()],
        (false, true) => {
            if val.starts_with('-') {
                vec![format!("-{short}={val}")]
            } else {
                vec![format!("-{short}{val}")]
            }
        }
        (false, false) => vec![format!("-{short}"), val.to_string()],
    }
}

impl Opts {
    fn args(&self) -> Vec<String> {
        let st = self.style;
        let mut groups: Vec<Vec<String>> = vec![];
        if let Some(z) = &self.z {
            groups.push(value_opt("z", "height", z, st & 1 != 0, st & 2 != 0));
        }
        if let Some(t) = &self.t {
            groups.push(value_opt("t", "time", t, st & 4 != 0, st & 8 != 0));
        }
        if let Some(d) = self.d {
            groups.push(value_opt("d", "decimals", &d.to_string(), st & 16 != 0, st & 32 != 0));
        }
        if let Some(d) = self.dim {
            groups.push(value_opt("D", "dimension", &d.to_string(), st & 64 != 0, st & 128 != 0));
        }
        if self.inv {
            groups.push(vec!["--inv".into()]);
        }
        if self.rt {
            groups.push(vec![if st & 256 != 0 { "--roundtrip".into() } else { "-r".into() }]);
        }
        if let Some(o) = &self.out {
            groups.push(vec!["-o".into(), o.clone()]);
        }
        if !groups.is_empty() {
            let k = self.order as usize % groups.len();
            groups.rotate_left(k);
        }
        groups.concat()
    }
    fn any(&self) -> bool {
        self.z.is_some() || self.t.is_some() || self.d.is_some() || self.dim.is_some() || self.inv || self.rt
    }
    fn label(&self) -> String {
        format!(
            "{}{}{}{}{}{}",
            if self.z.is_some() { "z" } else { "" },
            if self.t.is_some() { "t" } else { "" },
            if self.d.is_some() { "d" } else { "" },
            if self.dim.is_some() { "D" } else { "" },
            if self.inv { "i" } else { "" },
            if self.rt { "r" } else { "" }
        )
    }
}

#[derive(Clone, Debug, Serialize, Deserialize, PartialEq, Eq, Hash)]
enum Feed {
    /// every part is a named file argument
    Files,
    /// no file arguments, everything on stdin
    Stdin,
    /// part k (monotone index) is given as `-` and fed on stdin
    Dash(u8),
}

#[derive(Clone, Debug, Serialize, Deserialize, PartialEq, Eq, Hash)]
enum Fault {
    None,
    /// an extra file argument naming a file that does not exist, at this position
    Missing(u8),
    /// an extra file argument naming a directory
    Dir(u8),
}

// ---- the plan: everything needed to run kp once and to model it --------------------------

struct Plan {
    op: String,
    parts: Vec<Vec<u8>>, // file contents, in argument order
    feed: Feed,
    opts: Opts,
    fault: Fault,
    recs: Vec<Record>,
    /// number of blank / comment lines in the input
    skipped: usize,
    twin: bool,
    /// hostile bytes present: only "no panic" is asserted
    anything_goes: bool,
    fancy_names: bool,
}

struct KpOut {
    code: Option<i32>,
    signal: Option<i32>,
    stdout: Vec<u8>,
    stderr: String,
    cmdline: String,
}

fn kp_path() -> &'static PathBuf {
    static P: OnceLock<PathBuf> = OnceLock::new();
    P.get_or_init(|| match std::env::var("VERIF_KP") {
        Ok(p) if Path::new(&p).is_file() => PathBuf::from(p),
        _ => {
            eprintln!("C20: environment variable VERIF_KP must name the kp binary built from the tree (run through ./check C20)");
            std::process::exit(2)
        }
    })
}

/// All parts as one stream; a part whose last line is unterminated gets its newline
/// (kp reads files one by one, so lines of different files never merge).
fn join_parts(parts: &[Vec<u8>]) -> Vec<u8> {
    let mut joined: Vec<u8> = vec![];
    for (i, p) in parts.iter().enumerate() {
        joined.extend_from_slice(p);
        if i + 1 < parts.len() && !p.is_empty() && !p.ends_with(b"\n") {
            joined.push(b'\n');
        }
    }
    joined
}

const NAMES: [&str; 4] = ["a.txt", "b.dat", "c", "d.csv"];
const FANCY: [&str; 4] = ["in put.txt", "b#1.dat", "c.d.e", "ø.txt"];

fn run_kp(plan: &Plan, parts: &[Vec<u8>], feed: &Feed) -> KpOut {
    use std::os::unix::process::ExitStatusExt;
    let dir = tempfile::Builder::new().prefix("c20-").tempdir().unwrap_or_else(|e| {
        eprintln!("C20: cannot create a temporary directory: {e}");
        std::process::exit(2)
    });
    let infra = |what: &str, e: std::io::Error| -> ! {
        eprintln!("C20: {what}: {e}");
        std::process::exit(2)
    };
    let names = if plan.fancy_names { FANCY } else { NAMES };
    let mut files: Vec<String> = vec![];
    let mut stdin_file: Option<PathBuf> = None;
    match feed {
        Feed::Stdin => {
            let p = dir.path().join("stdin.txt");
            std::fs::write(&p, join_parts(parts)).unwrap_or_else(|e| infra("write", e));
            stdin_file = Some(p);
        }
        _ => {
            let dash = match feed {
                Feed::Dash(k) => Some(*k as usize % parts.len().max(1)),
                _ => None,
            };
            for (i, part) in parts.iter().enumerate() {
                if Some(i) == dash {
                    let p = dir.path().join("stdin.txt");
                    std::fs::write(&p, part).unwrap_or_else(|e| infra("write", e));
                    stdin_file = Some(p);
                    files.push("-".into());
                } else {
                    let name = if i < names.len() { names[i].to_string() } else { format!("part{i}.txt") };
                    std::fs::write(dir.path().join(&name), part).unwrap_or_else(|e| infra("write", e));
                    files.push(name);
                }
            }
        }
    }
    match &plan.fault {
        Fault::None => {}
        Fault::Missing(k) => {
            let pos = (*k as usize).min(files.len());
            files.insert(pos, "no-such-file.txt".into());
        }
        Fault::Dir(k) => {
            let pos = (*k as usize).min(files.len());
            std::fs::create_dir(dir.path().join("a-directory")).unwrap_or_else(|e| infra("mkdir", e));
            files.insert(pos, "a-directory".into());
        }
    }
    let o = plan.opts.args();
    let mut args: Vec<String> = vec![];
    match plan.opts.place % 3 {
        0 => {
            args.extend(o);
            args.push(plan.op.clone());
            args.extend(files);
        }
        1 => {
            args.push(plan.op.clone());
            args.extend(o);
            args.extend(files);
        }
        _ => {
            args.push(plan.op.clone());
            args.extend(files);
            args.extend(o);
        }
    }
    let mut cmd = Command::new(kp_path());
    cmd.args(&args)
        .current_dir(dir.path())
        .env("RUST_BACKTRACE", "0")
        .env("RUST_LIB_BACKTRACE", "0")
        .env_remove("RUST_LOG")
        .stdout(Stdio::piped())
        .stderr(Stdio::piped());
    match &stdin_file {
        Some(p) => {
            let f = std::fs::File::open(p).unwrap_or_else(|e| infra("open stdin file", e));
            cmd.stdin(Stdio::from(f));
        }
        None => {
            cmd.stdin(Stdio::null());
        }
    }
    let out = cmd.output().unwrap_or_else(|e| infra("cannot run kp", e));
    let cmdline = format!(
        "kp {}{}",
        args.iter().map(|a| format!("{a:?}")).collect::<Vec<_>>().join(" "),
        if stdin_file.is_some() { " < stdin.txt" } else { "" }
    );
    KpOut {
        code: out.status.code(),
        signal: out.status.signal(),
        stdout: out.stdout,
        stderr: String::from_utf8_lossy(&out.stderr).into_owned(),
        cmdline,
    }
}

/// Stable signature of a panic of the kp process, from its stderr.
fn panic_sig(stderr: &str) -> String {
    let Some(pos) = stderr.find("panicked at ") else {
        return "unknown-location".into();
    };
    let rest = &stderr[pos + "panicked at ".len()..];
    let mut lines = rest.lines();
    let loc = lines.next().unwrap_or("");
    let file = loc.split(':').next().unwrap_or("").trim();
    let msg = lines.next().unwrap_or("").trim();
    let cut = msg.find([';', '`', '\'']).unwrap_or(msg.len());
    // every run of digits becomes one '#'
    let mut m = String::new();
    for c in msg[..cut].trim().chars().take(70) {
        if c.is_ascii_digit() {
            if !m.ends_with('#') {
                m.push('#');
            }
        } else {
            m.push(c);
        }
    }
    format!("{file}:{m}")
}

fn head(s: &str, n: usize) -> String {
    let mut out: String = s.lines().take(n).collect::<Vec<_>>().join("\n    ");
    if out.len() > 900 {
        let mut c = 900;
        while !out.is_char_boundary(c) {
            c -= 1;
        }
        out.truncate(c);
        out.push('…');
    }
    out
}

// ---- the library side of the model -----------------------------------------------------

enum Lib {
    OpRejected(String),
    ApplyErr(String),
    Done { out: Vec<[f64; 4]>, n1: usize, n2: usize },
}

/// What the library computes for these tuples: Ok(Lib) or a panic inside the library.
fn library(op_def: &str, inv: bool, rt: bool, input: &[[f64; 4]]) -> Result<Lib, Failure> {
    let mut ctx = Plain::new();
    let op = match try_op(&mut ctx, op_def) {
        Err(p) => {
            return Err(Failure {
                key: format!("library-panic-instantiate@{}", p.sig()),
                msg: format!("Plain::op({op_def:?}) panics in-process: {} at {}:{}", p.msg, p.file, p.line),
            })
        }
        Ok(Err(e)) => return Ok(Lib::OpRejected(format!("{e:?}"))),
        Ok(Ok(op)) => op,
    };
    let mut data: Vec<Coor4D> = input.iter().map(|v| Coor4D(*v)).collect();
    let (first, second) = (!inv, inv); // true = forward
    let apply = |fwd: bool, data: &mut Vec<Coor4D>| -> Result<Result<usize, String>, Failure> {
        match try_apply(&ctx, op, dir_of(fwd), data) {
            Err(p) => Err(Failure {
                key: format!("library-panic-apply@{}", p.sig()),
                msg: format!("applying {op_def:?} ({:?}) panics in-process: {} at {}:{}", dir_of(fwd), p.msg, p.file, p.line),
            }),
            Ok(Err(e)) => Ok(Err(format!("{e:?}"))),
            Ok(Ok(n)) => Ok(Ok(n)),
        }
    };
    let n1 = match apply(first, &mut data)? {
        Ok(n) => n,
        Err(e) => return Ok(Lib::ApplyErr(e)),
    };
    let mut n2 = n1;
    if rt {
        n2 = match apply(second, &mut data)? {
            Ok(n) => n,
            Err(e) => return Ok(Lib::ApplyErr(e)),
        };
    }
    let out = data
        .iter()
        .zip(input)
        .map(|(c, i)| {
            let mut o = [c[0], c[1], c[2], c[3]];
            if rt {
                for k in 0..4 {
                    o[k] -= i[k]; // residual: forward-inverse result minus input
                }
            }
            o
        })
        .collect();
    Ok(Lib::Done { out, n1, n2 })
}

fn fmt_vals(v: &[f64; 4], dim: usize, dec: usize) -> Vec<String> {
    (0..dim.min(4)).map(|k| format!("{:.*}", dec, v[k])).collect()
}

fn decimals_of(tok: &str) -> Option<usize> {
    tok.find('.').map(|p| tok.len() - p - 1)
}

// ---- the oracle --------------------------------------------------------------------------

fn check_plan(plan: &Plan, rec: &mut Rec) -> CaseResult {
    let kp = run_kp(plan, &plan.parts, &plan.feed);
    let ctx_msg = |extra: &str| -> String {
        format!(
            "{}\n  operation: {:?}\n  input: {} data line(s) in {} part(s), feed {:?}, fault {:?}\n  exit code {:?} signal {:?}\n  stderr: {}\n  {}",
            kp.cmdline,
            plan.op,
            plan.recs.len(),
            plan.parts.len(),
            plan.feed,
            plan.fault,
            kp.code,
            kp.signal,
            head(&kp.stderr, 4),
            extra
        )
    };
    rec.count("kp_runs", 1);

    // 1. whatever the input: no death by signal, no panic
    if let Some(sig) = kp.signal {
        vfail!(format!("kp-killed-by-signal-{sig}"), "kp died from signal {sig}: {}", ctx_msg(""));
    }
    let code = kp.code.unwrap_or(-1);
    if code >= 101 || kp.stderr.contains("panicked at ") {
        let first = plan.recs.first().map(|r| r.src.clone()).unwrap_or_default();
        vfail!(
            format!("kp-panic@{}", panic_sig(&kp.stderr)),
            "kp panics (exit status {code}): {}",
            ctx_msg(&format!("first data line: {first:?}; widest line: {} column(s)", plan.recs.iter().map(|r| r.ncols).max().unwrap_or(0)))
        );
    }

    // 2. the library's view of the operation and the data
    let input: Vec<[f64; 4]> = plan
        .recs
        .iter()
        .map(|r| {
            let mut v = r.v;
            if let Some(z) = &plan.opts.z {
                v[2] = z.parse::<f64>().unwrap_or(f64::NAN);
            }
            if let Some(t) = &plan.opts.t {
                v[3] = t.parse::<f64>().unwrap_or(f64::NAN);
            }
            v
        })
        .collect();
    let lib = library(&plan.op, plan.opts.inv, plan.opts.rt, &input)?;

    let expect_error = |what: &str, key: &str| -> CaseResult {
        vensure!(code != 0, key, "{what}, but kp ends with status 0: {}", ctx_msg(&format!("stdout: {}", head(&String::from_utf8_lossy(&kp.stdout), 3))));
        vensure!(!kp.stderr.trim().is_empty(), "error-exit-without-message", "{what}: kp ends with status {code} but writes nothing to stderr: {}", ctx_msg(""));
        Ok(())
    };
    if let Lib::OpRejected(e) = &lib {
        rec.class("outcome:invalid-operation");
        let kind = if plan.recs.is_empty() { "no coordinate line" } else { "with coordinate lines" };
        rec.class(&format!("invalid-operation:{kind}"));
        expect_error(
            &format!("the library rejects the operation ({e}); input: {kind}"),
            if plan.recs.is_empty() { "invalid-operation-accepted-on-empty-input" } else { "invalid-operation-accepted" },
        )?;
        vensure!(
            kp.stdout.iter().all(|b| b.is_ascii_whitespace()),
            "invalid-operation-output",
            "the library rejects the operation ({e}), nothing can be computed, but kp prints: {}",
            ctx_msg(&format!("stdout: {}", head(&String::from_utf8_lossy(&kp.stdout), 3)))
        );
        rec.nontrivial(&(plan.op.clone(), plan.parts.clone(), plan.opts.args(), format!("{:?}", plan.feed)));
        return Ok(());
    }
    if plan.opts.out.is_some() {
        // -o is documented but not implemented: where its output goes is not asserted
        rec.class("outcome:-o-with-valid-operation-not-compared");
        return Ok(());
    }
    if plan.fault != Fault::None {
        rec.class("outcome:unreadable-file");
        expect_error("one file argument cannot be read", "unreadable-file-ignored")?;
        rec.nontrivial(&(plan.op.clone(), format!("{:?}{:?}{}", plan.fault, plan.feed, plan.parts.len())));
        return Ok(());
    }
    if plan.anything_goes {
        rec.class("outcome:hostile-bytes-no-panic");
        return Ok(());
    }
    if let Lib::ApplyErr(e) = &lib {
        rec.class("outcome:apply-error");
        return expect_error(&format!("the library's apply returns an error ({e})"), "apply-error-ignored");
    }
    let Lib::Done { out, n1, n2 } = lib else { unreachable!() };
    let n = plan.recs.len();

    // 3. empty input ends normally, without output
    if n == 0 {
        rec.class("outcome:empty-input");
        vensure!(code == 0, "empty-input-error-exit", "empty input must end normally, kp ends with status {code}: {}", ctx_msg(""));
        vensure!(kp.stdout.is_empty(), "empty-input-output", "empty input must give no output, kp prints {:?}: {}", head(&String::from_utf8_lossy(&kp.stdout), 3), ctx_msg(""));
        rec.nontrivial(&(plan.op.clone(), plan.parts.clone(), plan.opts.label()));
        return Ok(());
    }

    // success counts below the number of tuples: kp documents a refusal when the two legs disagree
    // (a line with an unparsable token has an unspecified value, so the model's counts do not bind kp)
    let unspecified = plan.recs.iter().any(|r| r.mode == Mode::Unchecked);
    let short = plan.opts.rt && (n1 < n || n2 < n || unspecified);
    if plan.opts.rt && (n1 != n2 || unspecified) && code != 0 {
        rec.class("outcome:roundtrip-count-mismatch-refused");
        vensure!(!kp.stderr.trim().is_empty(), "error-exit-without-message", "kp ends with status {code} but writes nothing to stderr: {}", ctx_msg(""));
        return Ok(());
    }
    vensure!(code == 0, "unexpected-error-exit", "valid operation and readable input, but kp ends with status {code}: {}", ctx_msg(""));

    // 4. one output line per coordinate line, in order
    let text = String::from_utf8_lossy(&kp.stdout);
    let mut lines: Vec<&str> = text.split('\n').collect();
    let last = lines.pop().unwrap_or("");
    vensure!(last.is_empty(), "output-last-line-unterminated", "kp's output does not end with a newline: {}", ctx_msg(""));
    vensure!(
        lines.len() == n,
        "line-count",
        "kp prints {} line(s) for {} coordinate line(s): {}",
        lines.len(),
        n,
        ctx_msg(&format!("stdout: {}", head(&text, 6)))
    );

    // 5. requested (or documented default) dimension and decimals
    let multi = n > BATCH;
    let widest = plan.recs.iter().map(|r| r.ncols).max().unwrap_or(1);
    let dim_expected: Option<usize> = match plan.opts.dim {
        Some(d @ 1..=4) => Some(d as usize),
        Some(_) => None, // 0 or > 4: not documented
        None if !multi => Some(widest.min(4)),
        None => None,
    };
    let dec_expected: Option<usize> = match plan.opts.d {
        Some(d) => Some(d as usize),
        None if !multi && plan.recs[0].mode == Mode::Exact => {
            let v0 = out[0][0];
            if v0 > 1000.001 {
                Some(5)
            } else if v0.abs() < 999.999 {
                Some(10)
            } else {
                None
            }
        }
        None => None,
    };
    let flags = format!("{}{}", if plan.opts.inv { "+inv" } else { "" }, if plan.opts.rt { "+roundtrip" } else { "" });
    let mut compared = 0u64;
    for (i, (line, r)) in lines.iter().zip(&plan.recs).enumerate() {
        let toks: Vec<&str> = line.split_whitespace().collect();
        let describe = |why: &str, model: &[String]| -> String {
            ctx_msg(&format!(
                "{why}\n  coordinate line #{i}: {:?} -> tuple {:?}\n  kp prints : {:?}\n  model says: {:?}  (library result {:?}, success counts {n1}/{n2} of {n})",
                r.src,
                input[i],
                line,
                model.join(" "),
                out[i]
            ))
        };
        let dim = match dim_expected {
            Some(d) => d,
            None => {
                vensure!((1..=4).contains(&toks.len()), format!("dimension-mismatch{flags}"), "{}", describe("an output line must carry 1..4 numbers", &[]));
                toks.len()
            }
        };
        if toks.len() != dim {
            let m = fmt_vals(&out[i], dim, dec_expected.unwrap_or(3));
            vfail!(format!("dimension-mismatch{flags}"), "{}", describe(&format!("expected {dim} number(s) per line (-D {:?}, widest input line {widest})", plan.opts.dim), &m));
        }
        if r.mode == Mode::Unchecked {
            continue;
        }
        let dec = match dec_expected {
            Some(d) => d,
            None => toks.iter().find_map(|t| decimals_of(t)).unwrap_or(0),
        };
        let model = fmt_vals(&out[i], dim, dec);
        let ok = match r.mode {
            Mode::Exact => model.iter().zip(&toks).all(|(m, t)| m == t),
            _ => model.iter().zip(&toks).zip(&out[i]).all(|((m, t), v)| {
                if m == t {
                    return true;
                }
                let Ok(x) = t.parse::<f64>() else { return false };
                if v.is_nan() || x.is_nan() {
                    return v.is_nan() && x.is_nan();
                }
                // two evaluation orders of D+M/60+S/3600 differ by ulps of the input (<= 4e-14 deg);
                // through the operators used here that is far below 1e-7 m resp. 1e-12 relative
                let tol = 1.01 * 10f64.powi(-(dec as i32)) + 1e-7 * (1.0f64).max(v.abs() * 1e-5);
                (x - v).abs() <= tol
            }),
        };
        if !ok {
            let finite = |t: &str| t.parse::<f64>().map(|v| v.is_finite()).unwrap_or(false);
            let wrong_dec = toks.iter().zip(&model).any(|(t, m)| finite(t) && finite(m) && decimals_of(t) != decimals_of(m));
            let key = if short {
                "roundtrip-residuals-only-for-first-n".to_string()
            } else if wrong_dec {
                format!("decimals-mismatch{flags}")
            } else {
                format!("value-mismatch{flags}")
            };
            vfail!(key, "{}", describe(&format!("numbers differ (decimals {dec}, -d {:?}, comparison {:?})", plan.opts.d, r.mode), &model));
        }
        compared += 1;
    }
    rec.count("lines_compared", compared);

    // 6. the same lines spread differently over files: identical output
    if plan.twin {
        let joined = join_parts(&plan.parts);
        let other = run_kp(plan, &[joined], if plan.feed == Feed::Stdin { &Feed::Files } else { &Feed::Stdin });
        rec.count("kp_runs", 1);
        rec.count("twin_runs", 1);
        vensure!(
            other.code == kp.code && other.stdout == kp.stdout,
            "file-split-changes-output",
            "the same lines give different output when spread differently over files/stdin:\n  A: {} -> status {:?}, {} bytes\n  B: {} -> status {:?}, {} bytes\n  first differing line: {:?}",
            kp.cmdline,
            kp.code,
            kp.stdout.len(),
            other.cmdline,
            other.code,
            other.stdout.len(),
            text.lines().zip(String::from_utf8_lossy(&other.stdout).lines()).enumerate().find(|(_, (a, b))| a != b).map(|(i, (a, b))| (i, a.to_string(), b.to_string()))
        );
    }

    rec.class(if short { "outcome:ok-short-count" } else { "outcome:ok" });
    rec.class(&format!("options:{}", if plan.opts.any() { plan.opts.label() } else { "-".into() }));
    rec.class(&format!("feed:{}", match plan.feed { Feed::Files => format!("files{}", plan.parts.len().min(4)), Feed::Stdin => "stdin".into(), Feed::Dash(_) => format!("dash-of-{}", plan.parts.len().min(4)) }));
    rec.class(&format!("op:{}", plan.op.split(|c: char| c == ' ' || c == '=').next().unwrap_or("")));
    rec.class(if multi { "batches:several" } else { "batches:one" });
    if n >= 2 && (plan.opts.any() || plan.skipped > 0) {
        rec.nontrivial(&(plan.op.clone(), plan.opts.args(), plan.parts.clone(), format!("{:?}", plan.feed)));
    }
    Ok(())
}

// ---- generated cases: small inputs -------------------------------------------------------

#[derive(Clone, Debug, Serialize, Deserialize)]
struct Job {
    op: String,
    lines: Vec<Line>,
    /// file boundaries as fractions of the line list; number of parts = cuts.len() + 1
    cuts: Vec<u16>,
    feed: Feed,
    opts: Opts,
    final_newline: bool,
    fault: Fault,
    twin: bool,
    fancy_names: bool,
    /// skip (and count) inputs of a registered, unrepaired defect class instead of running them
    /// (currently set by no generator: the four defects found by this check are repaired)
    #[serde(default)]
    exclude_known: bool,
}

fn plan_of_job(j: &Job) -> Plan {
    let n = j.lines.len();
    let mut bounds: Vec<usize> = j.cuts.iter().map(|c| pick(*c, n + 1)).collect();
    bounds.sort();
    bounds.push(n);
    let mut parts: Vec<Vec<u8>> = vec![];
    let mut recs = vec![];
    let mut skipped = 0;
    let mut anything_goes = false;
    let mut lo = 0;
    for hi in bounds {
        let mut bytes = vec![];
        for (k, l) in j.lines[lo..hi].iter().enumerate() {
            let (b, crlf) = l.render();
            match l {
                Line::Data { toks, .. } => recs.push(record_of(toks, String::from_utf8_lossy(&b).into_owned())),
                Line::Raw(_) => anything_goes = true,
                _ => skipped += 1,
            }
            bytes.extend_from_slice(&b);
            if j.final_newline || lo + k + 1 < hi {
                bytes.extend_from_slice(if crlf { b"\r\n" } else { b"\n" });
            }
        }
        parts.push(bytes);
        lo = hi;
    }
    Plan { op: j.op.clone(), parts, feed: j.feed.clone(), opts: j.opts.clone(), fault: j.fault.clone(), recs, skipped, twin: j.twin, anything_goes, fancy_names: j.fancy_names }
}

fn check_job(j: &Job, rec: &mut Rec) -> CaseResult {
    let plan = plan_of_job(j);
    if j.exclude_known {
        // registered defect classes, tested in their own sections (see known_findings):
        // no coordinate line at all, or a multiple of the batch size -> operands[0] on an empty batch
        if plan.recs.len() % BATCH == 0 {
            rec.count("excluded_known", 1);
            rec.class("excluded-known:empty-last-batch");
            return Ok(());
        }
    }
    for l in &j.lines {
        if let Line::Data { toks, trail, crlf, .. } = l {
            rec.count(&format!("lines_with_{}_columns", toks.len().min(6)), 1);
            if toks.iter().any(|t| matches!(t, Tok::Sexa { .. })) {
                rec.count(if toks.iter().all(|t| t.value().1 == Mode::Exact) { "lines_sexagesimal_exact" } else { "lines_sexagesimal_approx" }, 1);
            }
            if trail.is_some() {
                rec.count("lines_with_trailing_comment", 1);
            }
            if *crlf {
                rec.count("lines_crlf", 1);
            }
        } else {
            rec.count("lines_blank_or_comment", 1);
        }
    }
    check_plan(&plan, rec)
}

// ---- strategies ---------------------------------------------------------------------------

/// mantissa / 10^digits as decimal text
fn dec_text(m: i64, digits: usize) -> String {
    let neg = m < 0;
    let mut s = m.unsigned_abs().to_string();
    if digits > 0 {
        while s.len() <= digits {
            s.insert(0, '0');
        }
        s.insert(s.len() - digits, '.');
    }
    if neg {
        s.insert(0, '-');
    }
    s
}

fn sel(v: &[&str]) -> impl Strategy<Value = String> {
    let v: Vec<String> = v.iter().map(|s| s.to_string()).collect();
    let n = v.len();
    any::<u16>().prop_map(move |i| v[pick(i, n)].clone())
}

/// a real number around +-`max` with up to 9 decimals, in assorted spellings
fn num_text(max: i64) -> impl Strategy<Value = String> {
    prop_oneof![
        3 => (-max..=max).prop_map(|v| v.to_string()),
        6 => (-max * 1000..=max * 1000, 1usize..=9).prop_map(|(m, extra)| {
            // m/1000 with `extra` further digits derived from m (deterministic, non-trivial)
            let tail = (m.unsigned_abs().wrapping_mul(2654435761) % 1_000_000) as i64;
            let e = extra.min(6);
            let scaled = m.abs() * 10i64.pow(e as u32) + tail % 10i64.pow(e as u32);
            dec_text(if m < 0 { -scaled } else { scaled }, 3 + e)
        }),
        1 => sel(&["+12.5", ".5", "5.", "1e1", "1.5E1", "-0", "0", "-0.0", "007", "1e-9", "0.000", "-1.25e1", "+0"]),
    ]
}

fn sexa(dmax: u32, sfx: &'static [char]) -> impl Strategy<Value = Tok> {
    let exact_m = sel(&["0", "00", "7.5", "15", "22.5", "30", "37.5", "45", "52.5"]);
    let exact_s = sel(&["0", "00", "14.0625", "28.125", "42.1875", "56.25"]);
    let m = prop_oneof![
        4 => exact_m.prop_map(Some),
        2 => (0u32..60).prop_map(|v| Some(v.to_string())),
        1 => (0i64..60_000).prop_map(|v| Some(dec_text(v, 3))),
        1 => Just(None),
    ];
    let s = prop_oneof![
        4 => exact_s.prop_map(Some),
        2 => (0u32..60).prop_map(|v| Some(format!("{v:02}"))),
        1 => (0i64..60_000).prop_map(|v| Some(dec_text(v, 3))),
        2 => Just(None),
    ];
    (any::<bool>(), 0..=dmax, m, s, prop::option::weighted(0.45, any::<u16>()), prop::bool::weighted(0.15)).prop_map(move |(neg, d, m, s, sx, pad)| {
        let suffix = sx.map(|i| sfx[pick(i, sfx.len())]);
        let s = if m.is_some() { s } else { None };
        Tok::Sexa { neg: neg && suffix.is_none(), d: if pad { format!("{d:03}") } else { d.to_string() }, m, s, suffix }
    })
}

/// the four columns of one line: (lat, lon, h, t) flavours geographic / projected / radians
fn columns() -> impl Strategy<Value = Vec<Tok>> {
    let geo = (
        prop_oneof![3 => num_text(89).prop_map(Tok::Num), 2 => sexa(89, &['N', 'S', 'n', 's'])],
        prop_oneof![3 => num_text(179).prop_map(Tok::Num), 2 => sexa(179, &['E', 'W', 'e', 'w'])],
    )
        .prop_map(|(a, b)| vec![a, b]);
    let projected = (num_text(7_000_000), num_text(7_000_000)).prop_map(|(a, b)| vec![Tok::Num(a), Tok::Num(b)]);
    let radians = ((-3_100_000_000i64..3_100_000_000), (-1_500_000_000i64..1_500_000_000)).prop_map(|(a, b)| vec![Tok::Num(dec_text(a, 9)), Tok::Num(dec_text(b, 9))]);
    let h = prop_oneof![6 => num_text(9000).prop_map(Tok::Num), 1 => num_text(6_400_000).prop_map(Tok::Num), 1 => Just(Tok::NaN)];
    let t = prop_oneof![6 => (1990_000i64..2030_000).prop_map(|v| Tok::Num(dec_text(v, 3))), 2 => (1990i64..2030).prop_map(|v| Tok::Num(v.to_string())), 1 => Just(Tok::NaN)];
    (prop_oneof![6 => geo, 2 => projected, 2 => radians], h, t).prop_map(|(mut xy, h, t)| {
        xy.push(h);
        xy.push(t);
        xy
    })
}

fn comment_text() -> impl Strategy<Value = String> {
    prop_oneof![
        3 => sel(&["", " a comment", " 55 12 0 0", "55 12", " 1 2 3 4 5 6 7 8", "# double", " ækvator 55°N", "\tx", " -z 5"]),
        1 => "[ -~]{0,24}",
    ]
}

fn data_line(five: bool) -> impl Strategy<Value = Line> {
    let ncols = if five { prop_oneof![1 => Just(1usize), 4 => Just(2), 3 => Just(3), 3 => Just(4), 1 => Just(5)].boxed() } else { prop_oneof![1 => Just(1usize), 4 => Just(2), 3 => Just(3), 3 => Just(4)].boxed() };
    (ncols, columns(), 0u8..4, 0u8..3, prop::option::weighted(0.15, comment_text()), prop::bool::weighted(0.1)).prop_map(|(n, mut toks, sep, lead, trail, crlf)| {
        if n == 5 {
            toks.push(Tok::Num("42".into()));
        }
        toks.truncate(n);
        Line::Data { toks, sep, lead, trail, crlf }
    })
}

fn any_line(five: bool) -> impl Strategy<Value = Line> {
    prop_oneof![
        12 => data_line(five),
        2 => (0u8..4).prop_map(Line::Blank),
        2 => (0u8..3, comment_text()).prop_map(|(i, t)| Line::Comment(i, t)),
    ]
}

fn opts_strategy() -> impl Strategy<Value = Opts> {
    (
        prop::option::weighted(0.35, prop_oneof![3 => num_text(9000), 1 => sel(&["0", "-12.5", "100", "1e3"])]),
        prop::option::weighted(0.35, prop_oneof![3 => (1990_00i64..2030_00).prop_map(|v| dec_text(v, 2)), 1 => sel(&["2000", "0", "1999.5"])]),
        prop::option::weighted(0.5, prop_oneof![6 => 0u8..=12, 1 => 13u8..=20]),
        prop::option::weighted(0.5, 1u8..=4),
        prop::bool::weighted(0.35),
        prop::bool::weighted(0.3),
        any::<u16>(),
        any::<u8>(),
        prop_oneof![6 => Just(0u8), 1 => Just(1u8), 1 => Just(2u8)],
    )
        .prop_map(|(z, t, d, dim, inv, rt, style, order, place)| Opts { z, t, d, dim, inv, rt, style, order, place, out: None })
}

fn feed_strategy() -> impl Strategy<Value = Feed> {
    prop_oneof![6 => Just(Feed::Files), 2 => Just(Feed::Stdin), 2 => (0u8..4).prop_map(Feed::Dash)]
}

const ELLPS: [&str; 5] = ["GRS80", "intl", "WGS84", "bessel", "6378137,298.25"];

/// a small generator of valid definitions that need no resource files and treat every tuple independently
fn valid_op() -> BoxedStrategy<String> {
    let ellps = || any::<u16>().prop_map(|i| ELLPS[pick(i, ELLPS.len())]);
    prop_oneof![
        2 => Just("noop".to_string()),
        2 => sel(&["addone", "addone inv", "addone | addone", "addone | addone inv | addone", "addone|addone"]),
        5 => (1u8..=60, any::<bool>(), 0u8..4).prop_map(|(z, south, tail)| format!("geo:in | utm zone={z}{}{}", if south { " south" } else { "" }, ["", "", " | neu:out", " | enu:out"][tail as usize])),
        1 => (1u8..=60).prop_map(|z| format!("utm zone={z}")),
        1 => (1u8..=60).prop_map(|z| format!("neu:in | utm inv zone={z} | geo:out")),
        3 => ellps().prop_map(|e| format!("geo:in | cart ellps={e}")),
        1 => Just("cart".to_string()),
        1 => Just("gis:in | cart | cart inv | gis:out".to_string()),
        3 => (-2000i32..2000, -2000i32..2000, -2000i32..2000).prop_map(|(x, y, z)| format!("helmert x={} y={} z={}", dec_text(x as i64, 1), dec_text(y as i64, 2), z)),
        2 => (-900i32..900, -900i32..900, -50i32..50).prop_map(|(x, r, s)| format!("helmert x={x} y=-20 z=30 rx={} ry=0.2 rz=-0.1 s={} convention=position_vector", dec_text(r as i64, 3), dec_text(s as i64, 2))),
        2 => (ellps(), -500i32..500).prop_map(|(e, x)| format!("geo:in | cart | helmert x={x} y=100 z=-30 | cart inv ellps={e} | geo:out")),
        2 => (-80i32..80, -170i32..170).prop_map(|(lat, lon)| format!("geo:in | tmerc lat_0={lat} lon_0={lon} k_0=0.9996 x_0=500000")),
        1 => sel(&["geo:in | merc", "geo:in | webmerc", "geo:in | lcc lat_1=57 lat_2=55 lon_0=10", "geo:in | laea lat_0=52 lon_0=10 x_0=4321000 y_0=3210000", "gis:in | merc lat_ts=56"]),
        1 => sel(&["curvature mean", "curvature prime", "curvature meridian", "curvature gaussian"]),
        1 => sel(&["geo:in", "geo:out", "gis:in | geo:out", "axisswap order=2,1", "axisswap order=2,-1,3,4", "adapt from=neuf_deg to=enuf_rad"]),
        1 => sel(&["+proj=utm +zone=32", "proj=utm zone=33", "geo:in | utm zone=32 | utm inv zone=33"]),
    ]
    .boxed()
}

const INVALID_OPS: [&str; 14] = [
    "nonexistent",
    "utm",
    "utm zone=61",
    "utm zone=0",
    "geo:in | nonexistent",
    "",
    "foo:bar",
    "geo:in | utm",
    "helmert convention=sideways x=1 rx=1",
    "curvature mean inv",
    "curvature",
    "noop | | nonexistent |",
    "gridshift grids=no-such-grid.gsb",
    "+proj=nonexistent",
];

fn invalid_op() -> impl Strategy<Value = String> {
    any::<u16>().prop_map(|i| INVALID_OPS[pick(i, INVALID_OPS.len())].to_string())
}

fn job_strategy(max_lines: usize, five: bool) -> impl Strategy<Value = Job> {
    (
        prop_oneof![15 => valid_op(), 1 => invalid_op().boxed()],
        prop::collection::vec(any_line(five), 0..=max_lines),
        prop::collection::vec(any::<u16>(), 0..=3),
        feed_strategy(),
        opts_strategy(),
        prop::bool::weighted(0.85),
        prop::bool::weighted(0.2),
        prop::bool::weighted(0.1),
    )
        .prop_map(|(op, lines, mut cuts, feed, opts, final_newline, twin, fancy_names)| {
            if cuts.len() == 3 {
                cuts.truncate(if lines.len() % 3 == 0 { 3 } else { 1 }); // mostly 1..3 parts
            }
            Job { op, lines, cuts, feed, opts, final_newline, fault: Fault::None, twin, fancy_names, exclude_known: false }
        })
}

// ---- inputs larger than one internal batch (generated procedurally from a few numbers) -------

#[derive(Clone, Debug, Serialize, Deserialize)]
struct Big {
    op: String,
    /// number of coordinate lines
    n: usize,
    /// 1..4: every line has that many columns; 0: widths cycle 1..4; 5: two columns except one four-column line at `wide_at`
    width: u8,
    wide_at: usize,
    /// a comment or blank line after every `junk_every` coordinate lines (0: none)
    junk_every: usize,
    /// coordinate-line indices at which a new file starts
    cuts: Vec<usize>,
    feed: Feed,
    opts: Opts,
    salt: u32,
}

fn big_tokens(i: usize, salt: u32) -> [String; 4] {
    let i = i as u64;
    let s = salt as u64;
    let lat = ((i * 7919 + s * 31) % 160_001) as i64 - 80_000;
    let lon = ((i * 104_729 + s * 17) % 340_001) as i64 - 170_000;
    let h = ((i * 13 + s) % 90_000) as i64 - 1000;
    let t = 2_000_000 + ((i * 7 + s) % 30_000) as i64;
    [dec_text(lat, 3), dec_text(lon, 3), dec_text(h, 1), dec_text(t, 3)]
}

fn plan_of_big(b: &Big) -> Plan {
    let mut bounds: Vec<usize> = b.cuts.iter().map(|c| (*c).min(b.n)).collect();
    bounds.sort();
    bounds.push(b.n);
    let mut parts = vec![];
    let mut recs = Vec::with_capacity(b.n);
    let mut skipped = 0;
    let mut lo = 0;
    for hi in bounds {
        let mut text = String::new();
        for i in lo..hi {
            let w = match b.width {
                0 => 1 + i % 4,
                5 => {
                    if i == b.wide_at {
                        4
                    } else {
                        2
                    }
                }
                w => (w as usize).clamp(1, 4),
            };
            let toks = big_tokens(i, b.salt);
            let src = toks[..w].join(" ");
            let tk: Vec<Tok> = toks[..w].iter().map(|t| Tok::Num(t.clone())).collect();
            recs.push(record_of(&tk, src.clone()));
            text.push_str(&src);
            text.push('\n');
            if b.junk_every > 0 && (i + 1) % b.junk_every == 0 {
                text.push_str(if (i / b.junk_every) % 2 == 0 { "# after line\n" } else { "  \n" });
                skipped += 1;
            }
        }
        parts.push(text.into_bytes());
        lo = hi;
    }
    Plan { op: b.op.clone(), parts, feed: b.feed.clone(), opts: b.opts.clone(), fault: Fault::None, recs, skipped, twin: !b.cuts.is_empty(), anything_goes: false, fancy_names: false }
}

fn check_big(b: &Big, rec: &mut Rec) -> CaseResult {
    let plan = plan_of_big(b);
    rec.class(&format!("lines:{}", b.n));
    rec.class(&format!("width-mode:{}", b.width));
    rec.class(&format!("parts:{}", plan.parts.len()));
    check_plan(&plan, rec)
}

fn mix(a: u64, b: u64) -> u64 {
    let mut z = a.wrapping_mul(0x9E3779B97F4A7C15) ^ b.wrapping_add(0xD1342543DE82EF95).wrapping_mul(0xBF58476D1CE4E5B9);
    z = (z ^ (z >> 30)).wrapping_mul(0xBF58476D1CE4E5B9);
    z = (z ^ (z >> 27)).wrapping_mul(0x94D049BB133111EB);
    z ^ (z >> 31)
}

const BIG_SIZES: [usize; 9] = [24_999, 25_000, 25_001, 49_999, 50_000, 50_001, 25_017, 60_003, 75_000];
const BIG_OPS: [&str; 6] = ["geo:in | utm zone=32", "addone", "geo:in | cart", "helmert x=10.5 y=-20.25 z=30", "noop", "geo:in | utm zone=33 | neu:out"];

fn big_case(i: usize, seed: u64) -> Big {
    if i < 3 {
        // an invalid operation must be refused also when more than one batch has been read
        let mut b = big_case(i + 3, seed);
        b.op = INVALID_OPS[[0, 1, 4][i]].to_string();
        b.n = [BATCH, BATCH + 1, 2 * BATCH + 1][i];
        b.wide_at = 10;
        b.cuts.retain(|c| *c < b.n);
        return b;
    }
    let h = mix(seed, i as u64);
    let n = BIG_SIZES[i % BIG_SIZES.len()];
    let op = BIG_OPS[(i / BIG_SIZES.len() + (h % 6) as usize) % BIG_OPS.len()].to_string();
    let width = ((h >> 8) % 6) as u8;
    let wide_at = [10, BATCH - 1, BATCH, n - 1][((h >> 12) % 4) as usize];
    let junk_every = [0, 0, 7, 1000, 24_999][((h >> 16) % 5) as usize];
    let cuts = match (h >> 20) % 6 {
        0 => vec![],
        1 => vec![BATCH],
        2 => vec![BATCH - 1],
        3 => vec![BATCH + 1],
        4 => vec![n / 3, 2 * n / 3],
        _ => vec![1, n - 1],
    };
    let feed = match (h >> 24) % 5 {
        0 => Feed::Stdin,
        1 => Feed::Dash(((h >> 27) % 3) as u8),
        _ => Feed::Files,
    };
    let opts = Opts {
        z: if (h >> 30) % 3 == 0 { Some("12.5".into()) } else { None },
        t: if (h >> 32) % 2 == 0 { Some("2020.5".into()) } else { None },
        d: [None, Some(3), Some(6), None][((h >> 34) % 4) as usize],
        dim: [None, Some(3), Some(4), Some(2)][((h >> 36) % 4) as usize],
        inv: (h >> 38) % 4 == 0,
        rt: (h >> 40) % 3 == 0,
        style: (h >> 42) as u16,
        order: (h >> 58) as u8,
        place: 0,
        out: None,
    };
    Big { op, n, width, wide_at, junk_every, cuts, feed, opts, salt: (h >> 44) as u32 % 1000 }
}

// ---- fixed material for the enumerated sections ------------------------------------------------

fn num(s: &str) -> Tok {
    Tok::Num(s.into())
}
fn data(toks: Vec<Tok>) -> Line {
    Line::Data { toks, sep: 0, lead: 0, trail: None, crlf: false }
}

/// the input used for the option matrix: every documented ingredient once
fn matrix_lines() -> Vec<Line> {
    vec![
        Line::Comment(0, " lat lon [h [t]]".into()),
        Line::Data { toks: vec![num("55"), num("12")], sep: 0, lead: 0, trail: Some(" 100 2000 h and t in a comment".into()), crlf: false },
        Line::Blank(1),
        Line::Data {
            toks: vec![
                Tok::Sexa { neg: false, d: "55".into(), m: Some("30".into()), s: Some("00".into()), suffix: Some('N') },
                Tok::Sexa { neg: false, d: "12".into(), m: Some("15".into()), s: None, suffix: Some('E') },
                num("100"),
            ],
            sep: 1,
            lead: 1,
            trail: Some(" sexagesimal, with height".into()),
            crlf: false,
        },
        data(vec![num("-33.5"), num("151.25"), num("30"), num("2020.5")]),
        Line::Data { toks: vec![num("7")], sep: 0, lead: 2, trail: None, crlf: true },
    ]
}

const MATRIX_OPS: [&str; 6] = ["geo:in | utm zone=32", "geo:in | cart", "addone", "helmert x=10 y=-20 z=30.5", "noop", "geo:in | merc | neu:out"];
const MATRIX_D: [Option<u8>; 4] = [None, Some(0), Some(3), Some(12)];
const MATRIX_DIM: [Option<u8>; 5] = [None, Some(1), Some(2), Some(3), Some(4)];
const MATRIX_COMBOS: usize = 2 * 2 * 4 * 5 * 2 * 2 * 4;

fn matrix_case(i: usize) -> Job {
    let (combo, opi) = (i % MATRIX_COMBOS, i / MATRIX_COMBOS);
    let mut k = combo;
    let mut take = |n: usize| {
        let r = k % n;
        k /= n;
        r
    };
    let z = take(2) == 1;
    let t = take(2) == 1;
    let d = MATRIX_D[take(4)];
    let dim = MATRIX_DIM[take(5)];
    let inv = take(2) == 1;
    let rt = take(2) == 1;
    let feed = take(4);
    let h = mix(7, combo as u64);
    Job {
        // quick tier: one pass over all combinations, the operation rotating with the combination
        op: MATRIX_OPS[(opi + combo) % MATRIX_OPS.len()].to_string(),
        lines: matrix_lines(),
        cuts: if feed >= 2 { vec![32768] } else { vec![] },
        feed: [Feed::Stdin, Feed::Files, Feed::Files, Feed::Dash(1)][feed].clone(),
        opts: Opts {
            z: z.then(|| "100".to_string()),
            t: t.then(|| "2015.5".to_string()),
            d,
            dim,
            inv,
            rt,
            style: h as u16,
            order: (h >> 16) as u8,
            place: 0,
            out: None,
        },
        final_newline: true,
        fault: Fault::None,
        twin: false,
        fancy_names: false,
        exclude_known: false,
    }
}

/// inputs without any coordinate line
fn empty_inputs() -> Vec<(Vec<Line>, Vec<u16>, Feed)> {
    let c = |t: &str| Line::Comment(0, t.into());
    vec![
        (vec![], vec![], Feed::Stdin),
        (vec![], vec![], Feed::Files),
        (vec![], vec![0], Feed::Files),
        (vec![], vec![0, 0], Feed::Dash(1)),
        (vec![Line::Blank(0)], vec![], Feed::Files),
        (vec![Line::Blank(1), Line::Blank(2), Line::Blank(0)], vec![], Feed::Stdin),
        (vec![c(" only a comment")], vec![], Feed::Files),
        (vec![c(" 55 12"), Line::Blank(0), Line::Comment(2, "1 2 3 4 5 6 7".into())], vec![40000], Feed::Files),
    ]
}

fn empty_case(i: usize) -> Job {
    let inputs = empty_inputs();
    let (lines, cuts, feed) = inputs[i % inputs.len()].clone();
    let r = i / inputs.len();
    let ops = ["noop", "geo:in | utm zone=32", "addone"];
    let o = r / ops.len();
    Job {
        op: ops[r % ops.len()].to_string(),
        lines,
        cuts,
        feed,
        opts: Opts { d: (o & 1 != 0).then_some(3), dim: (o & 2 != 0).then_some(3), rt: o & 4 != 0, inv: o == 5, ..Opts::default() },
        final_newline: i % 2 == 0,
        fault: Fault::None,
        twin: false,
        fancy_names: false,
        exclude_known: false,
    }
}
const EMPTY_CASES: usize = 8 * 3 * 8;

/// invalid operations and unreadable files
fn error_case(i: usize) -> Job {
    let n_inv = INVALID_OPS.len() * 3;
    let lines = vec![data(vec![num("55"), num("12")]), data(vec![num("56"), num("13"), num("100")])];
    let mut j = Job {
        op: "geo:in | utm zone=32".into(),
        lines,
        cuts: vec![],
        feed: Feed::Files,
        opts: Opts::default(),
        final_newline: true,
        fault: Fault::None,
        twin: false,
        fancy_names: false,
        exclude_known: false,
    };
    if i < n_inv {
        j.op = INVALID_OPS[i % INVALID_OPS.len()].to_string();
        match i / INVALID_OPS.len() {
            0 => j.feed = Feed::Stdin,
            1 => {}
            _ => {
                j.cuts = vec![32768];
                j.opts.rt = true;
                j.opts.d = Some(3);
            }
        }
    } else {
        let k = i - n_inv; // 2 kinds x 3 positions x 3 part layouts x 2 option sets
        let pos = (k / 2 % 3) as u8;
        j.fault = if k % 2 == 0 { Fault::Missing(pos) } else { Fault::Dir(pos) };
        match k / 6 % 3 {
            0 => j.lines.clear(), // the unreadable file is the only (real) argument
            1 => {}
            _ => j.cuts = vec![32768],
        }
        if k / 18 == 1 {
            j.opts.d = Some(2);
            j.opts.dim = Some(3);
            j.op = "addone".into();
        }
    }
    j
}
const ERROR_CASES: usize = INVALID_OPS.len() * 3 + 36;

/// invalid operation x every input class (no coordinate line at all ... a few lines) x option sets
fn invalid_inputs() -> Vec<(Vec<Line>, Vec<u16>, Feed)> {
    let mut v = empty_inputs();
    let c = |t: &str| Line::Comment(0, t.into());
    let one = || data(vec![num("55"), num("12")]);
    v.push((vec![Line::Blank(0), Line::Blank(0)], vec![0, 30000, 65535], Feed::Files)); // four files, all without coordinates
    v.push((vec![c(" nothing here")], vec![65535], Feed::Dash(0))); // comment on stdin, then an empty file
    v.push((vec![one()], vec![], Feed::Stdin));
    v.push((vec![one()], vec![], Feed::Files));
    v.push((vec![c(" header"), one(), Line::Blank(1)], vec![], Feed::Files));
    v.push((vec![one(), data(vec![num("56"), num("13"), num("100"), num("2020")])], vec![32768], Feed::Files));
    v.push((vec![c(" first file has no coordinates"), Line::Blank(0), one()], vec![43000], Feed::Dash(1)));
    v
}
const INVALID_INPUTS: usize = 15;
const INVALID_OPTS: usize = 10;

fn invalid_case(i: usize) -> Job {
    let inputs = invalid_inputs();
    assert_eq!(inputs.len(), INVALID_INPUTS);
    let (lines, cuts, feed) = inputs[i % INVALID_INPUTS].clone();
    let r = i / INVALID_INPUTS;
    let op = INVALID_OPS[r % INVALID_OPS.len()].to_string();
    let o = r / INVALID_OPS.len();
    let h = mix(11, i as u64);
    let mut opts = Opts { style: h as u16, order: (h >> 16) as u8, place: [0, 0, 0, 1, 2][(h >> 24) as usize % 5], ..Opts::default() };
    match o {
        0 => {}
        1 => opts.d = Some(3),
        2 => opts.dim = Some(3),
        3 => opts.inv = true,
        4 => opts.rt = true,
        5 => opts.z = Some("100".into()),
        6 => opts.t = Some("2015.5".into()),
        7 => opts.out = Some("result.txt".into()),
        8 => {
            opts.inv = true;
            opts.rt = true;
        }
        _ => {
            opts = Opts { z: Some("-5".into()), t: Some("2000".into()), d: Some(2), dim: Some(4), inv: true, rt: true, out: Some("result.txt".into()), ..opts };
        }
    }
    Job { op, lines, cuts, feed, opts, final_newline: i % 3 != 0, fault: Fault::None, twin: false, fancy_names: i % 7 == 0, exclude_known: false }
}
const INVALID_CASES: usize = INVALID_INPUTS * INVALID_OPS.len() * INVALID_OPTS;

// ---- robustness: text outside the documented format -----------------------------------------------

/// kind 0: unparsable ASCII token, 1: inf/nan spellings, 2: token ending in a multi-byte character,
/// 3: more than five columns, 4: bytes that are not text
fn hostile_line(kind: u8) -> BoxedStrategy<Line> {
    let with_junk = |junk: BoxedStrategy<String>| {
        (columns(), 1usize..=4, any::<u16>(), junk)
            .prop_map(|(mut toks, n, at, j)| {
                toks.truncate(n);
                let k = pick(at, n);
                toks[k] = Tok::Junk(j);
                data(toks)
            })
            .boxed()
    };
    match kind {
        0 => with_junk(
            prop_oneof![
                3 => sel(&["abc", "1:2:3:4", "12#c", "--", "1,5", "1:", ":", "N", "1e400", "0x10", "1_000", "5:x", "1::2", "-", "+", "5..2", "1e", "-:", "1:2:", "w"]),
                1 => "[!-~]{1,8}".prop_filter("not a comment", |s| !s.starts_with('#')),
            ]
            .boxed(),
        ),
        1 => with_junk(sel(&["inf", "-inf", "nan", "infinity", "NAN", "1e308", "-1e-320", "inf:1", "1:inf"]).boxed()),
        2 => with_junk(sel(&["5é", "55°", "12′", "1:30:36Ñ", "é", "12,5€", "5\u{a0}", "١٢"]).boxed()),
        3 => (columns(), 2usize..=8)
            .prop_map(|(mut toks, extra)| {
                for k in 0..extra {
                    toks.push(Tok::Num(format!("{}", 100 + k)));
                }
                data(toks)
            })
            .boxed(),
        _ => (0u8..4)
            .prop_map(|k| {
                Line::Raw(match k {
                    0 => vec![0x35, 0x35, 0x20, 0xff, 0xfe, 0x31],
                    1 => vec![0x31, 0x00, 0x32, 0x20, 0x33],
                    2 => b"1 2 ".iter().cloned().chain(std::iter::repeat(b'9').take(5000)).collect(),
                    _ => vec![0xc3],
                })
            })
            .boxed(),
    }
}

fn hostile_job() -> impl Strategy<Value = Job> {
    let kind = prop_oneof![5 => Just(0u8), 3 => Just(1u8), 1 => Just(2u8), 1 => Just(3u8), 1 => Just(4u8)];
    kind.prop_flat_map(|kind| {
        (
            sel(&["noop", "geo:in | utm zone=32", "addone", "geo:in | cart"]),
            prop::collection::vec(any_line(true), 1..12),
            prop::collection::vec((hostile_line(kind), any::<u16>()), 1..=3),
            prop::collection::vec(any::<u16>(), 0..=1),
            feed_strategy(),
            opts_strategy(),
            prop::option::weighted(0.25, sel(&["0", "5", "9", "255"])),
            prop::option::weighted(0.2, sel(&["25", "40", "60"])),
        )
    })
    .prop_map(|(op, mut lines, bad, cuts, feed, mut opts, odd_dim, big_d)| {
        for (l, at) in bad {
            let k = pick(at, lines.len() + 1);
            lines.insert(k, l);
        }
        if let Some(d) = odd_dim {
            opts.dim = d.parse().ok();
        }
        if let Some(d) = big_d {
            opts.d = d.parse().ok();
        }
        Job { op, lines, cuts, feed, opts, final_newline: true, fault: Fault::None, twin: false, fancy_names: false, exclude_known: false }
    })
}

fn check_hostile(j: &Job, rec: &mut Rec) -> CaseResult {
    let mut wide = false;
    let mut multibyte = false;
    for l in &j.lines {
        if let Line::Data { toks, .. } = l {
            wide |= toks.len() > 5;
            multibyte |= toks.iter().any(|t| matches!(t, Tok::Junk(s) if !s.is_ascii()));
        }
    }
    rec.class(if wide { "more-than-5-columns" } else { "at-most-5-columns" });
    rec.class(if multibyte { "multibyte-token" } else { "ascii-tokens" });
    if matches!(j.opts.dim, Some(0) | Some(5..)) {
        rec.class("undocumented-D");
    }
    if j.lines.iter().any(|l| matches!(l, Line::Raw(_))) {
        rec.class("raw-bytes");
    }
    check_job(j, rec)
}

// ---- model self test against the examples of Rumination 003 ---------------------------------------

fn selftest_model() {
    let line = |toks: &[&str]| record_of(&toks.iter().map(|t| Tok::Num(t.to_string())).collect::<Vec<_>>(), String::new());
    // echo 55 12 | kp "geo:in | utm zone=32"  ->  691875.6321 6098907.8250
    let r = line(&["55", "12"]);
    assert!(r.v[2] == 0.0 && r.v[3].is_nan() && r.ncols == 2, "default filling");
    match library("geo:in | utm zone=32", false, false, &[r.v]) {
        Ok(Lib::Done { out, .. }) => assert_eq!(fmt_vals(&out[0], 2, 4), ["691875.6321", "6098907.8250"], "Rumination 003, first example"),
        _ => panic!("model cannot run the first example of Rumination 003"),
    }
    // echo 55 | kp -D4 "curvature mean"  ->  6385431.75306 0.00000 0.00000 NaN
    let r = line(&["55"]);
    match library("curvature mean", false, false, &[r.v]) {
        Ok(Lib::Done { out, .. }) => assert_eq!(fmt_vals(&out[0], 4, 5), ["6385431.75306", "0.00000", "0.00000", "NaN"], "Rumination 003, -D4 example"),
        _ => panic!("model cannot run the curvature example of Rumination 003"),
    }
    // sexagesimal reading, from the library's own documentation: 1:30:36 = 1.51, S and W negative
    let sx = |neg, d: &str, m: &str, s: &str, c| Tok::Sexa { neg, d: d.into(), m: Some(m.into()), s: Some(s.into()), suffix: c };
    assert_eq!(sx(false, "1", "30", "36", None).value(), (1.51, Mode::Approx));
    assert_eq!(sx(true, "1", "30", "36", None).value().0, -1.51);
    assert_eq!(sx(false, "1", "30", "36", Some('S')).value().0, -1.51);
    assert_eq!(sx(false, "1", "30", "36", Some('e')).value().0, 1.51);
    assert_eq!(sx(true, "0", "30", "00", None).value(), (-0.5, Mode::Exact));
    assert_eq!(sx(false, "12", "7.5", "14.0625", Some('W')).value(), (-(12.0 + 0.125 + 1.0 / 256.0), Mode::Exact));
    assert_eq!(sx(false, "12", "15", "00", Some('E')).text(), "12:15:00E");
    assert_eq!(dec_text(-5, 3), "-0.005");
    assert_eq!(dec_text(12345, 2), "123.45");
    assert_eq!(dec_text(7, 0), "7");
    assert_eq!(
        panic_sig("\nthread 'main' (1) panicked at src/bin/kp.rs:228:31:\nindex out of bounds: the len is 0 but the index is 0\nnote: x"),
        "src/bin/kp.rs:index out of bounds: the len is # but the index is #"
    );
}

fn main() {
    let mut run = Run::init("C20");
    selftest_model();
    let _ = kp_path();
    run.assume("the kp binary is the one ./check builds from the working tree (debug profile) and exports as VERIF_KP; the model calls the same library sources in-process (release profile): IEEE arithmetic and the system libm give identical doubles in both");
    run.assume("numbers are compared as whitespace separated tokens (trailing blanks of a line are not significant), textually after Rust's own fixed-point formatting of the model value");
    run.assume("-z / -t give the height / time of ALL tuples ('Specify a fixed height for all coordinates'), also when the line carries its own third / fourth column");
    run.assume("without -d / -D the defaults are modelled for inputs of at most one batch only: decimals 5 if the first printed number is > 1000, 10 if it is below 1000 in magnitude (otherwise, and for several batches, the number of decimals is read off kp's own line and only the values are compared); dimension = widest coordinate line of the whole input");
    run.assume("sexagesimal values whose minute/second parts are not binary fractions of a degree are compared with a tolerance of one unit of the last printed decimal + 1e-7 (evaluation order of D+M/60+S/3600 is not documented); all other lines textually");
    run.assume("lines containing tokens that are neither reals nor sexagesimal values still count as coordinate lines (one output line, right number of columns), their values are not compared; a fifth column is ignored");
    run.assume("an invalid operation must be refused (non-zero status, message, no output) whatever the input, including input without any coordinate line: 'empty input ends normally' is read as a statement about valid operations");
    run.assume("negative option values are passed as -z=-5 / --height=-5 (clap rejects '-z -5'); option values are plain reals");
    run.assume("a roundtrip whose two legs report different success counts may be refused by kp with an error (its documented check); operations are restricted to ones that treat tuples independently and need no resource files");
    run.watchdog(std::time::Duration::from_secs(180), false);

    // 1. every combination of the documented options
    let reps = if run.is_thorough() { MATRIX_OPS.len() } else { 1 };
    run.enumerate(
        "option-combinations",
        "all 1280 combinations of -z x -t x -d {absent,0,3,12} x -D {absent,1,2,3,4} x --inv x --roundtrip x feed {stdin, one file, two files, file + '-'} on a six-line input (comment, blank line, 1/2/3/4 columns, sexagesimal values, trailing comment, CRLF), spelling of each option (short/long/joined) and option order varied; quick: operation rotates over 6 definitions with the combination, thorough: every definition x every combination; non-trivial = all (>= 2 data lines plus comment/blank lines)",
        MATRIX_COMBOS * reps,
        matrix_case,
        check_job,
    );

    // 2. random inputs
    let n = run.scale(1500, 40_000);
    let max_lines = if run.is_thorough() { 60 } else { 30 };
    run.section(
        "random-inputs",
        "random valid definition (utm/tmerc/merc/lcc/laea/cart/helmert/addone/adapt/axisswap/curvature/pipelines/PROJ syntax) x 0..60 lines (1-5 columns, reals in assorted spellings, sexagesimal with N/S/E/W, NaN, blank lines, comments, trailing comments, tabs, CRLF, missing final newline) x 1..4 parts as files / stdin / '-' x random option set; 20% re-run with all lines in one stream (outputs must be identical); non-trivial = >= 2 data lines and at least one option or a comment/blank line, distinct by operation, arguments and file contents",
        n,
        move || job_strategy(max_lines, true),
        check_job,
    );

    // 3. more than one internal batch
    let n = run.scale(17, 273);
    let seed = run.seed;
    run.sweep(
        "large-inputs",
        "24 999 ... 75 000 coordinate lines (sizes around 1x, 2x, 3x the 25 000 batch: one below, exactly, one above), column layouts (fixed 1-4, cycling, one wide line at the batch edge), comment/blank lines interleaved, file boundaries at/before/after the batch boundary, stdin, option sets; every line compared; inputs split over files are re-run as one stream and must give identical bytes; the first three cases use an invalid operation (error expected after 25 000 / 25 001 / 50 001 lines)",
        n,
        move |i| big_case(i, seed),
        check_big,
    );

    // 4. invalid operations, unreadable files
    run.enumerate(
        "errors",
        "14 invalid definitions (unknown operator, missing/invalid parameter, broken pipeline, unknown macro, non-invertible inv, missing grid, empty) x {stdin, file, two files + options}; a missing file / a directory as first, middle, last file argument x {alone, one, two readable files} x option sets: non-zero status below 101 and a message on stderr",
        ERROR_CASES,
        error_case,
        check_job,
    );

    // 4b. invalid operation x every input class x option sets
    run.enumerate(
        "invalid-operation-any-input",
        "14 invalid definitions x 15 inputs (empty stdin, empty file, two/three/four empty files, '-' among empty files, blank lines only, comments only, comment on stdin + empty file; one coordinate line on stdin / in a file / between comments; two lines in two files; coordinates only in the second part) x 10 option sets (none, -d, -D, --inv, --roundtrip, -z, -t, -o, --inv --roundtrip, all together), option position varied: non-zero status below 101, a message on stderr, nothing on stdout - also when there is no coordinate line to transform",
        INVALID_CASES,
        invalid_case,
        check_job,
    );

    // 5. empty input
    run.enumerate(
        "empty-input",
        "no coordinate line at all: empty stdin, empty file(s), blank lines only, comments only, spread over 1-3 parts x 3 operations x {-d, -D, --roundtrip, --inv}: status 0 and no output",
        EMPTY_CASES,
        empty_case,
        check_job,
    );

    // 6. text outside the documented format
    let n = run.scale(500, 12_000);
    run.section(
        "hostile-text",
        "lines with unparsable tokens (letters, stray colons, inf/nan, tokens ending in multi-byte characters), 6-12 columns, invalid UTF-8 / NUL / 5 kB tokens, -D 0/5/9/255, -d 25..60: never a panic or signal; if kp succeeds: one line per coordinate line with the right number of columns, ordinary lines still compared",
        n,
        hostile_job,
        check_hostile,
    );

    run.finish("kp run as a child process on generated files; stdout compared line for line with a model that parses the input as documented, calls the library in-process and formats with the requested decimals/dimension; exit status and stderr checked for errors, empty input and panics");
}
