//! C02 — each tuple is transformed independently of neighbours, order and container.
//!
//! Oracle: metamorphic, on bit patterns (all NaNs identified):
//!   whole[i] == singleton(x_i); permuted input -> permuted output; concatenated chunk
//!   results == whole; a repeated application to a fresh copy after an arbitrary history
//!   of other applications on the same handle == first application; a fresh context gives
//!   the same; count(whole) == sum of counts of the parts for elementary operators;
//!   the same tuples through every supported container == Vec<Coor4D> in the stored dims;
//!   absolute for histories made of OTHER operators: every member of a family of confusable
//!   operators (same definition on an ellipsoid sharing rf or a, one numeric parameter changed,
//!   `inv` toggled, twin, another operator kind on a related ellipsoid, a pipeline of two of
//!   them), instantiated and applied in every order of pairs on ONE thread == the same member
//!   applied alone, in a context of its own, on a freshly spawned thread (sections
//!   sibling-history, random, and sibling-ellipsoid-table, exhaustive over the groups of equal
//!   rf / equal a of the built-in ellipsoid table x every operator kind taking an ellipsoid).
//! Generated: operator catalogue (all built-ins, valid parameters), type-correct pipelines,
//! stack programs, grid operators on generated Gravsoft grids (GridCtx), heterogeneous
//! coordinate sets (mixed epochs, NaN members, out-of-domain members, duplicates, empty).

use geodesy::prelude::*;
use proptest::prelude::*;
use proptest::strategy::Union;
use serde::{Deserialize, Serialize};
use std::collections::BTreeSet;
use vcore::geo::*;
use vcore::gridctx::{gravsoft_text, GridCtx};
use vcore::*;

type BS<T> = BoxedStrategy<T>;

static HK: std::sync::atomic::AtomicBool = std::sync::atomic::AtomicBool::new(false);
const HELMERT_KEY: &str = "helmert-dynamic-parameters-carried-over-between-tuples";

// ---- kinds of coordinate domains --------------------------------------------------

#[derive(Clone, Copy, Debug, Serialize, Deserialize, PartialEq, Eq, Hash)]
enum Kind {
    GeoRad,  // (lon, lat, h, t) radians
    GeoDeg,  // (lat, lon, h, t) degrees
    Cart,    // (X, Y, Z, t) metres
    Proj,    // (E, N, h, t) metres
    GeodFwd, // (lat, lon, azimuth, distance) degrees / metres
    GeodInv, // (lat1, lon1, lat2, lon2) degrees
    Any,
}
use Kind::*;

#[derive(Clone, Debug, Serialize, Deserialize)]
struct GridSpec {
    name: String,
    bands: u8,
    off_lat: i32, // southern edge relative to the region centre (degrees)
    off_lon: i32, // western edge relative to the region centre (degrees)
    rows: u8,
    cols: u8,
    half: bool, // 0.5 degree spacing instead of 1
    vseed: u32,
    #[serde(default)]
    nt: Option<NtSpec>, // an NTv2 file with nested sub-grids instead of a Gravsoft grid
}

/// NTv2 file: root grid = the GridSpec rectangle; child sub-grids cover whole root cells with a
/// finer spacing and node values of their own (so that the choice of sub-grid is visible on the
/// child's border). `shipped`: the repository's geodesy/gsb/5458_with_subgrid.gsb instead.
#[derive(Clone, Debug, Serialize, Deserialize)]
struct NtSpec {
    sub: u8,       // child spacing = root spacing / sub (2 or 4)
    a: u16,        // picks of the child's rows/columns (in root cells)
    b: u16,
    c: u16,
    d: u16,
    two: bool,     // a second child sharing the first one's eastern edge
    grand: bool,   // a grandchild in the south-west root cell of the first child
    shipped: bool,
}

/// one sub-grid of an NTv2 file: limits and spacing in arcsec, longitudes positive EAST
#[derive(Clone, Debug)]
struct Rect {
    name: String,
    parent: String,
    s: i64,
    n: i64,
    w: i64,
    e: i64,
    dlat: i64,
    dlon: i64,
    leaf: bool,
}

impl Rect {
    fn rows(&self) -> i64 {
        (self.n - self.s) / self.dlat + 1
    }
    fn cols(&self) -> i64 {
        (self.e - self.w) / self.dlon + 1
    }
    /// limits in radians, computed as the library's NTv2 header parser does
    fn lat(&self, arcsec: f64) -> f64 {
        arcsec.to_radians() / 3600.
    }
    fn lon(&self, arcsec_east: f64) -> f64 {
        -(-arcsec_east).to_radians() / 3600.
    }
}

impl GridSpec {
    fn rects(&self, la: i32, lo: i32) -> Vec<Rect> {
        let Some(nt) = &self.nt else { return vec![] };
        if nt.shipped {
            return vec![
                Rect { name: "5458".into(), parent: "NONE".into(), s: 54 * 3600, n: 58 * 3600, w: 8 * 3600, e: 16 * 3600, dlat: 3600, dlon: 3600, leaf: false },
                Rect { name: "5556".into(), parent: "5458".into(), s: 55 * 3600, n: 56 * 3600, w: 12 * 3600, e: 14 * 3600, dlat: 1800, dlon: 1800, leaf: true },
            ];
        }
        let d: i64 = if self.half { 1800 } else { 3600 };
        let rows = (self.rows as i64).max(3);
        let cols = (self.cols as i64).max(3);
        let s = (la + self.off_lat) as i64 * 3600;
        let w = (lo + self.off_lon) as i64 * 3600;
        let mut v = vec![Rect { name: "ROOT".into(), parent: "NONE".into(), s, n: s + d * (rows - 1), w, e: w + d * (cols - 1), dlat: d, dlon: d, leaf: false }];
        // child rows r0 < r1 and columns c0 < c1 in root cells
        let span = |x: u16, y: u16, cells: i64| -> (i64, i64) {
            let a = pick(x, cells as usize) as i64;
            let b = 1 + pick(y, cells as usize) as i64;
            if a < b {
                (a, b)
            } else {
                (b - 1, a + 1)
            }
        };
        let (r0, r1) = span(nt.a, nt.b, rows - 1);
        let cd = d / nt.sub.max(1) as i64;
        let (c0, c1) = if nt.two {
            // two children side by side: [c0, cs] and [cs, c1]
            let cs = 1 + pick(nt.c, (cols - 2) as usize) as i64;
            let c0 = pick(nt.d, cs as usize) as i64;
            let c1 = cs + 1 + pick(nt.d, (cols - 1 - cs) as usize) as i64;
            let (q0, q1) = span(nt.b, nt.a, rows - 1);
            v.push(Rect { name: "EAST".into(), parent: "ROOT".into(), s: s + d * q0, n: s + d * q1, w: w + d * cs, e: w + d * c1, dlat: cd, dlon: cd, leaf: true });
            (c0, cs)
        } else {
            span(nt.c, nt.d, cols - 1)
        };
        v.push(Rect { name: "WEST".into(), parent: "ROOT".into(), s: s + d * r0, n: s + d * r1, w: w + d * c0, e: w + d * c1, dlat: cd, dlon: cd, leaf: !nt.grand });
        if nt.grand {
            v.push(Rect { name: "GRAND".into(), parent: "WEST".into(), s: s + d * r0, n: s + d * (r0 + 1), w: w + d * c0, e: w + d * (c0 + 1), dlat: cd / 2, dlon: cd / 2, leaf: true });
        }
        v
    }

    /// special positions (lon, lat radians): corners, edge points, points a hair inside/outside the
    /// upper limits, interior points of every sub-grid; derived the way the library derives the limits
    fn specials(&self, la: i32, lo: i32) -> Vec<[f64; 2]> {
        let mut out = vec![];
        for r in self.rects(la, lo) {
            let (s, n, w, e) = (r.s as f64, r.n as f64, r.w as f64, r.e as f64);
            let (dl, dn) = (r.dlon as f64, r.dlat as f64);
            let mid_lon = w + dl * ((r.cols() / 2) as f64) + dl / 4.0;
            let mid_lat = s + dn * ((r.rows() / 2) as f64) - dn / 4.0;
            let mut add = |lon: f64, lat: f64| out.push([r.lon(lon), r.lat(lat)]);
            // corners
            for lon in [w, e] {
                for lat in [s, n] {
                    add(lon, lat);
                }
            }
            // edges: at a node and between nodes
            for lat in [s, n] {
                add(w + dl, lat);
                add(mid_lon, lat);
                add(e - dl / 2.0, lat);
            }
            for lon in [w, e] {
                add(lon, s + dn);
                add(lon, mid_lat);
                add(lon, n - dn / 2.0);
            }
            // a hair inside / outside the upper limits (tolerance of the library: 1e-6 cells)
            for k in [-3e-6, -5e-7, 5e-7, 3e-6] {
                add(mid_lon, n + k * dn);
                add(e + k * dl, mid_lat);
            }
            // interior
            add(mid_lon, mid_lat);
            add(w + dl / 3.0, s + dn / 3.0);
            add(e - dl / 8.0, n - dn / 8.0);
            add(w + dl, s + dn);
        }
        out
    }

    fn bytes(&self, la: i32, lo: i32) -> Result<Vec<u8>, String> {
        let Some(nt) = &self.nt else { return Ok(self.text(la, lo).into_bytes()) };
        if nt.shipped {
            let dir = std::env::var("VERIF_REPO_DIR").unwrap_or_else(|_| "/repo".into());
            return std::fs::read(std::path::Path::new(&dir).join("geodesy/gsb/5458_with_subgrid.gsb")).map_err(|e| format!("{e}"));
        }
        let rects = self.rects(la, lo);
        let mut b: Vec<u8> = vec![];
        fn key(b: &mut Vec<u8>, k: &str) {
            let mut kk = [b' '; 8];
            kk[..k.len()].copy_from_slice(k.as_bytes());
            b.extend_from_slice(&kk);
        }
        fn rec_i(b: &mut Vec<u8>, k: &str, v: i32) {
            key(b, k);
            b.extend_from_slice(&v.to_le_bytes());
            b.extend_from_slice(&[0; 4]);
        }
        fn rec_s(b: &mut Vec<u8>, k: &str, v: &str) {
            key(b, k);
            key(b, v);
        }
        fn rec_f(b: &mut Vec<u8>, k: &str, v: f64) {
            key(b, k);
            b.extend_from_slice(&v.to_le_bytes());
        }
        rec_i(&mut b, "NUM_OREC", 11);
        rec_i(&mut b, "NUM_SREC", 11);
        rec_i(&mut b, "NUM_FILE", rects.len() as i32);
        rec_s(&mut b, "GS_TYPE", "SECONDS");
        rec_s(&mut b, "VERSION", "C02");
        rec_s(&mut b, "SYSTEM_F", "FROM");
        rec_s(&mut b, "SYSTEM_T", "TO");
        rec_f(&mut b, "MAJOR_F", 6378137.0);
        rec_f(&mut b, "MINOR_F", 6356752.314);
        rec_f(&mut b, "MAJOR_T", 6378137.0);
        rec_f(&mut b, "MINOR_T", 6356752.314);
        // the file order of sub-grids is arbitrary by the format: children first for odd seeds
        let mut order: Vec<usize> = (0..rects.len()).collect();
        if self.vseed % 2 == 1 {
            order.reverse();
        }
        for &i in &order {
            let r = &rects[i];
            rec_s(&mut b, "SUB_NAME", &r.name);
            rec_s(&mut b, "PARENT", &r.parent);
            rec_s(&mut b, "CREATED", "20260927");
            rec_s(&mut b, "UPDATED", "20260927");
            rec_f(&mut b, "S_LAT", r.s as f64);
            rec_f(&mut b, "N_LAT", r.n as f64);
            rec_f(&mut b, "E_LONG", -(r.e as f64));
            rec_f(&mut b, "W_LONG", -(r.w as f64));
            rec_f(&mut b, "LAT_INC", r.dlat as f64);
            rec_f(&mut b, "LONG_INC", r.dlon as f64);
            rec_i(&mut b, "GS_COUNT", (r.rows() * r.cols()) as i32);
            for row in 0..r.rows() as u64 {
                for col in 0..r.cols() as u64 {
                    for band in 0..2u64 {
                        let mut sd = ((self.vseed as u64) << 24) ^ ((i as u64) << 20) ^ (band << 18) ^ (row << 9) ^ col;
                        let h = splitmix(&mut sd);
                        // +-8 arcsec in eighths, plus an offset per sub-grid: borders never agree
                        let v = (((h % 129) as f32) - 64.0) / 8.0 + 3.0 * i as f32;
                        b.extend_from_slice(&v.to_le_bytes());
                    }
                    b.extend_from_slice(&[0; 8]); // accuracies
                }
            }
        }
        key(&mut b, "END");
        b.extend_from_slice(&[0; 8]);
        Ok(b)
    }

    fn text(&self, la: i32, lo: i32) -> String {
        let d = if self.half { 0.5 } else { 1.0 };
        let lat_s = (la + self.off_lat) as f64;
        let lon_w = (lo + self.off_lon) as f64;
        let lat_n = lat_s + d * (self.rows as f64 - 1.0);
        let lon_e = lon_w + d * (self.cols as f64 - 1.0);
        let amp = match self.bands {
            1 => 40.0,  // metres (geoid)
            2 => 15.0,  // arcsec
            _ => 60.0,  // mm / year
        };
        let mut vals = vec![];
        for b in 0..self.bands as u64 {
            let mut band = vec![];
            for r in 0..self.rows as u64 {
                let mut row = vec![];
                for c in 0..self.cols as u64 {
                    let mut s = (self.vseed as u64) << 20 ^ (b << 16) ^ (r << 8) ^ c;
                    let h = splitmix(&mut s);
                    let noise = ((h % 2001) as f64 - 1000.0) / 1000.0;
                    let smooth = 0.3 * (r as f64) - 0.2 * (c as f64) + (b as f64);
                    // quarter units: exactly representable in f32
                    row.push(((amp * 0.5 * noise + smooth) * 4.0).round() / 4.0);
                }
                band.push(row);
            }
            vals.push(band);
        }
        gravsoft_text(lat_s, lat_n, lon_w, lon_e, d, d, &vals)
    }
}

#[derive(Clone, Debug, Serialize, Deserialize)]
struct Step {
    text: String,
    name: String,
    inn: Kind,
    out: Kind,
    neutral: bool, // keeps the kind of its input
    wmask: u8,     // dimensions possibly written (incl. NaN stomps), both directions
    invertible: bool,
    timedep: bool,
    dynhel: u8, // 0 no; 1 dynamic helmert without t_obs, translation rate zero; 2 translation rate non-zero
    grids: Vec<GridSpec>,
    centre: [F; 2], // approximate projected coordinates of the region centre (out == Proj)
}

impl Step {
    fn new(text: impl Into<String>, name: &str, inn: Kind, out: Kind, wmask: u8, invertible: bool) -> Step {
        Step {
            text: text.into(),
            name: name.to_string(),
            inn,
            out,
            neutral: false,
            wmask,
            invertible,
            timedep: false,
            dynhel: 0,
            grids: vec![],
            centre: [F(0.0), F(0.0)],
        }
    }
    fn neutral(text: impl Into<String>, name: &str, wmask: u8, invertible: bool) -> Step {
        let mut s = Step::new(text, name, Any, Any, wmask, invertible);
        s.neutral = true;
        s
    }
    fn centre(mut self, e: f64, n: f64) -> Step {
        self.centre = [F(e), F(n)];
        self
    }
    fn inverted(mut self) -> Step {
        self.text.push_str(" inv");
        std::mem::swap(&mut self.inn, &mut self.out);
        self
    }
}

#[derive(Clone, Debug, Serialize, Deserialize)]
struct OpSpec {
    def: String,
    macros: Vec<(String, String)>,
    grids: Vec<GridSpec>,
    la: i32,
    lo: i32,
    elementary: bool,
    sig: String,
    timedep: bool,
    dynhel: u8,
    wmask: u8,
    in_kind: Kind,  // domain of the forward direction
    out_kind: Kind, // domain of the inverse direction
    in_centre: [F; 2],
    out_centre: [F; 2],
}

// ---- small deterministic helpers -----------------------------------------------------

fn splitmix(x: &mut u64) -> u64 {
    *x = x.wrapping_add(0x9E3779B97F4A7C15);
    let mut z = *x;
    z = (z ^ (z >> 30)).wrapping_mul(0xBF58476D1CE4E5B9);
    z = (z ^ (z >> 27)).wrapping_mul(0x94D049BB133111EB);
    z ^ (z >> 31)
}

/// seed 0 = identity, seed 1 = reversal, otherwise Fisher-Yates driven by splitmix
fn permutation(n: usize, seed: u64) -> Vec<usize> {
    let mut p: Vec<usize> = (0..n).collect();
    match seed {
        0 => {}
        1 => p.reverse(),
        _ => {
            let mut s = seed;
            for i in (1..n).rev() {
                let j = (splitmix(&mut s) % (i as u64 + 1)) as usize;
                p.swap(i, j);
            }
        }
    }
    p
}

fn sel<T: Clone + std::fmt::Debug + 'static>(v: &[T]) -> BS<T> {
    proptest::sample::select(v.to_vec()).boxed()
}
fn dec(lo: i32, hi: i32, div: f64) -> BS<f64> {
    (lo..=hi).prop_map(move |v| v as f64 / div).boxed()
}
fn ellps() -> BS<String> {
    sel(&["", "", " ellps=GRS80", " ellps=WGS84", " ellps=intl", " ellps=bessel", " ellps=clrk66", " ellps=6378388,297"]).prop_map(|s| s.to_string()).boxed()
}

const A: f64 = 6378137.0;
const ES: f64 = 0.00669438002290;

// ---- the operator catalogue -------------------------------------------------------------

fn projections(la: i32, lo: i32, cap: u8) -> Vec<(u32, BS<Step>)> {
    let mut v: Vec<(u32, BS<Step>)> = vec![];
    let coslat = (la as f64).to_radians().cos();
    let x0s = [0.0, 500000.0, 1234.5];
    let y0s = [0.0, -5000000.0, 250.25];
    let k0s = [1.0, 0.9996, 0.9999];
    for name in ["tmerc", "btmerc"] {
        let s = (-3..=3i32, any::<bool>(), sel(&k0s), sel(&x0s), sel(&y0s), ellps())
            .prop_map(move |(d, uselat0, k, x0, y0, e)| {
                let lon0 = lo + d;
                let lat0 = if uselat0 { la } else { 0 };
                let text = format!("{name} lat_0={lat0} lon_0={lon0} k_0={k} x_0={x0} y_0={y0}{e}");
                Step::new(text, name, GeoRad, Proj, 0b0011, true).centre(x0 - (d as f64) * 111e3 * coslat, y0 + ((la - lat0) as f64) * 111e3)
            })
            .boxed();
        v.push((3, s));
    }
    for name in ["utm", "butm"] {
        let s = (-1..=1i32, any::<bool>(), ellps())
            .prop_map(move |(dz, south, e)| {
                let zone = ((lo + 180).div_euclid(6) + 1 + dz).clamp(1, 60);
                let text = format!("{name} zone={zone}{}{e}", if south { " south" } else { "" });
                let cm = 6 * zone - 183;
                Step::new(text, name, GeoRad, Proj, 0b0011, true)
                    .centre(5e5 + ((lo - cm) as f64) * 111e3 * coslat, (la as f64) * 111e3 + if south { 1e7 } else { 0.0 })
            })
            .boxed();
        v.push((3, s));
    }
    {
        let s = (-3..=3i32, prop_oneof![sel(&k0s).prop_map(|k| format!(" k_0={k}")), sel(&[0, 30, 56]).prop_map(|t| format!(" lat_ts={t}"))], sel(&x0s), sel(&y0s), ellps())
            .prop_map(move |(d, k, x0, y0, e)| {
                let text = format!("merc lon_0={}{k} x_0={x0} y_0={y0}{e}", lo + d);
                Step::new(text, "merc", GeoRad, Proj, 0b0011, true).centre(A * (lo as f64).to_radians(), A * (la as f64).to_radians().tan().asinh())
            })
            .boxed();
        v.push((2, s));
        let s = ellps()
            .prop_map(move |e| {
                Step::new(format!("webmerc{e}"), "webmerc", GeoRad, Proj, 0b0011, true).centre(A * (lo as f64).to_radians(), A * (la as f64).to_radians().tan().asinh())
            })
            .boxed();
        v.push((1, s));
    }
    if cap == 0b1111 {
        let s = (sel(&[0, 5, -7, 12]), any::<bool>(), -3..=3i32, sel(&k0s), sel(&x0s), sel(&y0s), ellps())
            .prop_map(move |(d2, with_lat0, d, k, x0, y0, e)| {
                let lat1 = if la.abs() < 5 { 10 } else { la.clamp(-80, 80) };
                let mut lat2 = lat1 + d2;
                if lat2 == -lat1 || lat2.abs() > 85 {
                    lat2 = lat1;
                }
                let l0 = if with_lat0 { format!(" lat_0={la}") } else { String::new() };
                let text = format!("lcc lat_1={lat1} lat_2={lat2}{l0} lon_0={} k_0={k} x_0={x0} y_0={y0}{e}", lo + d);
                Step::new(text, "lcc", GeoRad, Proj, 0b1111, true).centre(x0, y0)
            })
            .boxed();
        v.push((3, s));
    }
    {
        let s = (sel(&[0u8, 0, 1, 2, 3]), -3..=3i32, sel(&x0s), sel(&y0s), ellps())
            .prop_map(move |(asp, d, x0, y0, e)| {
                let lat0 = match asp {
                    0 => la,
                    1 => 90,
                    2 => -90,
                    _ => 0,
                };
                let text = format!("laea lat_0={lat0} lon_0={} x_0={x0} y_0={y0}{e}", lo + d);
                Step::new(text, "laea", GeoRad, Proj, 0b0011, true).centre(x0, y0 + ((la - lat0) as f64) * 111e3)
            })
            .boxed();
        v.push((3, s));
        let s = (sel(&[30.0, 53.25, 90.0, 120.0]), sel(&[0u8, 1, 2]), any::<bool>(), sel(&k0s), sel(&x0s), sel(&y0s), ellps())
            .prop_map(move |(alpha, g, variant, k, x0, y0, e)| {
                let latc = if la == 0 { 4 } else { la.clamp(-80, 80) };
                let gamma = match g {
                    0 => String::new(),
                    1 => format!(" gamma_c={alpha}"),
                    _ => " gamma_c=53.125".to_string(),
                };
                let text = format!("omerc latc={latc} lonc={lo} alpha={alpha}{gamma}{} k_0={k} x_0={x0} y_0={y0}{e}", if variant { " variant" } else { "" });
                Step::new(text, "omerc", GeoRad, Proj, 0b0011, true).centre(x0, y0)
            })
            .boxed();
        v.push((2, s));
        let s = (sel(&k0s), sel(&x0s), sel(&y0s), ellps())
            .prop_map(move |(k, x0, y0, e)| {
                let text = format!("somerc lat_0={} lon_0={lo} k_0={k} x_0={x0} y_0={y0}{e}", la.clamp(-80, 80));
                Step::new(text, "somerc", GeoRad, Proj, 0b0011, true).centre(x0, y0)
            })
            .boxed();
        v.push((2, s));
    }
    v
}

fn grid_spec(bands: u8) -> BS<GridSpec> {
    (-4..=0i32, -5..=0i32, 2u8..=7, 2u8..=8, any::<bool>(), any::<u32>())
        .prop_map(move |(off_lat, off_lon, rows, cols, half, vseed)| GridSpec {
            name: format!("c02_{bands}b_{vseed:08x}"),
            bands,
            off_lat,
            off_lon,
            rows,
            cols,
            half,
            vseed,
            nt: None,
        })
        .boxed()
}

fn nt_grid_spec() -> BS<GridSpec> {
    (-4..=-1i32, -5..=-1i32, 3u8..=6, 3u8..=7, any::<bool>(), any::<u32>(), (sel(&[2u8, 2, 4]), any::<u16>(), any::<u16>(), any::<u16>(), any::<u16>(), any::<bool>(), prop::bool::weighted(0.3)))
        .prop_map(|(off_lat, off_lon, rows, cols, half, vseed, (sub, a, b, c, d, two, grand))| GridSpec {
            name: format!("c02_nt_{vseed:08x}.gsb"),
            bands: 2,
            off_lat,
            off_lon,
            rows,
            cols,
            half,
            vseed,
            nt: Some(NtSpec { sub, a, b, c, d, two, grand, shipped: false }),
        })
        .boxed()
}

/// gridshift on an NTv2 file with nested sub-grids (generated, or the shipped 5458_with_subgrid.gsb
/// served by GridCtx), optionally followed by a Gravsoft grid and/or @null
fn ntv2_gridshift(force_null: bool) -> BS<Step> {
    (nt_grid_spec(), prop::bool::weighted(0.12), prop::option::weighted(0.25, grid_spec(2)), prop::bool::weighted(0.4))
        .prop_map(move |(mut g, shipped, extra, null)| {
            if shipped {
                g.name = "5458_with_subgrid.gsb".to_string();
                g.nt.as_mut().unwrap().shipped = true;
            }
            let null = null || force_null;
            let mut names = vec![g.name.clone()];
            let mut gs = vec![g];
            if let Some(x) = extra {
                names.push(x.name.clone());
                gs.push(x);
            }
            if null {
                names.push("@null".to_string());
            }
            let mut s = Step::new(format!("gridshift grids={}", names.join(",")), "gridshift:ntv2", GeoRad, GeoRad, if null { 0b0011 } else { 0b1111 }, true);
            s.grids = gs;
            s
        })
        .boxed()
}

/// grid list text: real grids, optionally a missing optional grid, optionally @null
fn grid_list(bands: u8, force_null: bool) -> BS<(String, Vec<GridSpec>, bool)> {
    (prop::collection::vec(grid_spec(bands), 1..=3), sel(&[0u8, 0, 1, 2]), prop::bool::weighted(0.4))
        .prop_map(move |(gs, missing, null)| {
            let null = null || force_null;
            let mut names: Vec<String> = gs.iter().map(|g| g.name.clone()).collect();
            match missing {
                1 => names.insert(0, "@c02_missing_grid".to_string()),
                2 => names.push("@c02_missing_grid".to_string()),
                _ => {}
            }
            if gs.len() > 1 && gs[0].vseed % 3 == 0 {
                names[0] = format!("@{}", names[0]); // an optional grid that is present
            }
            if null {
                names.push("@null".to_string());
            }
            (names.join(","), gs, null)
        })
        .boxed()
}


fn deformation_step() -> BS<Step> {
    (grid_list(3, false), prop_oneof![3 => sel(&[2000.0, 1994.5, 2015.0]).prop_map(|t| (format!(" t_epoch={t}"), true)), 1 => sel(&[1.0, -12.5, 1000.0]).prop_map(|d| (format!(" dt={d}"), false))], prop::bool::weighted(0.15), ellps())
        .prop_map(|((list, gs, _), (time, timedep), raw, e)| {
            let mut s = Step::new(format!("deformation{}{time} grids={list}{e}", if raw { " raw" } else { "" }), "deformation", Cart, Cart, 0b1111, true);
            s.grids = gs;
            s.timedep = timedep;
            s
        })
        .boxed()
}

fn gridshift_steps(cap: u8) -> Vec<(u32, BS<Step>)> {
    let mut v: Vec<(u32, BS<Step>)> = vec![];
    // without @null a point outside all grids is NaN-stomped in all four dimensions
    let with_null_only = cap != 0b1111;
    let s = grid_list(2, with_null_only)
        .prop_map(|(list, gs, null)| {
            let mut s = Step::new(format!("gridshift grids={list}"), "gridshift", GeoRad, GeoRad, if null { 0b0011 } else { 0b1111 }, true);
            s.grids = gs;
            s
        })
        .boxed();
    v.push((5, s));
    v.push((4, ntv2_gridshift(with_null_only)));
    if cap & 0b0100 != 0 {
        let s = grid_list(1, with_null_only)
            .prop_map(|(list, gs, null)| {
                let mut s = Step::new(format!("gridshift grids={list}"), "gridshift", GeoRad, GeoRad, if null { 0b0100 } else { 0b1111 }, true);
                s.grids = gs;
                s
            })
            .boxed();
        v.push((3, s));
    }
    v.push((1, Just(Step::new("gridshift grids=@c02_missing_grid", "gridshift", GeoRad, GeoRad, 0, true)).boxed()));
    v
}

fn deflection_step() -> BS<Step> {
    (grid_list(1, false), ellps())
        .prop_map(|((list, gs, _), e)| {
            let list = list.replace(",@null", "");
            let mut s = Step::new(format!("deflection grids={list}{e}"), "deflection", GeoDeg, Any, 0b1111, false);
            s.grids = gs;
            s
        })
        .boxed()
}

fn helmert(hk: bool, in_pipeline: bool) -> BS<Step> {
    let v3 = |lo: i32, hi: i32, div: f64| [dec(lo, hi, div), dec(lo, hi, div), dec(lo, hi, div)];
    (
        (prop::option::weighted(0.8, v3(-2000, 2000, 10.0)), any::<bool>()),
        (prop::option::weighted(0.5, v3(-100, 100, 100.0)), any::<bool>(), any::<bool>(), any::<bool>()),
        prop::option::weighted(0.5, dec(-500, 500, 100.0)),
        (0u8..8, v3(-3, 3, 1.0), v3(-10, 10, 1000.0), dec(-10, 10, 1000.0), any::<bool>()),
        (sel(&[2000.0, 2000.0, 1997.0, 2010.5, 2020.0]), prop::option::weighted(0.15, sel(&[2000.0, 2005.0, 2017.25]))),
    )
        .prop_map(move |((tr, tlist), (rot, rlist, cf, exact), sc, (rates, dt, dr, ds, dlist), (t_epoch, t_obs))| {
            let mut text = "helmert".to_string();
            if let Some(t) = tr {
                if tlist {
                    text += &format!(" translation={},{},{}", t[0], t[1], t[2]);
                } else {
                    text += &format!(" x={} y={} z={}", t[0], t[1], t[2]);
                }
            }
            let mut rotated = false;
            if let Some(r) = rot {
                rotated = true;
                if rlist {
                    text += &format!(" rotation={},{},{}", r[0], r[1], r[2]);
                } else {
                    text += &format!(" rx={} ry={} rz={}", r[0], r[1], r[2]);
                }
            }
            if let Some(s) = sc {
                text += &format!(" s={s}");
            }
            let mut dynamic = false;
            let mut dtnz = false;
            if rates & 1 != 0 {
                if dlist {
                    text += &format!(" velocity={},{},{}", dt[0], dt[1], dt[2]);
                } else {
                    text += &format!(" dx={} dy={} dz={}", dt[0], dt[1], dt[2]);
                }
                dtnz = dt.iter().any(|v| *v != 0.0);
                dynamic |= dtnz;
            }
            if rates & 2 != 0 {
                rotated = true;
                if dlist {
                    text += &format!(" angular_velocity={},{},{}", dr[0], dr[1], dr[2]);
                } else {
                    text += &format!(" drx={} dry={} drz={}", dr[0], dr[1], dr[2]);
                }
                dynamic |= dr.iter().any(|v| *v != 0.0);
            }
            if rates & 4 != 0 {
                text += &format!(" ds={ds}");
                dynamic |= ds != 0.0;
            }
            if rotated {
                text += if cf { " convention=coordinate_frame" } else { " convention=position_vector" };
                if exact {
                    text += " exact";
                }
            }
            let mut fixed = false;
            if rates != 0 {
                text += &format!(" t_epoch={t_epoch}");
                if let Some(t) = t_obs {
                    text += &format!(" t_obs={t}");
                    fixed = true;
                }
            }
            let mut s = Step::new(text, "helmert", Cart, Cart, 0b0111, true);
            if dynamic && !fixed {
                if hk && in_pipeline {
                    // registered finding: inside pipelines the epochs reaching the step cannot be
                    // controlled, so the class is excluded by pinning the observation epoch
                    s.text += " t_obs=2010";
                    s.dynhel = 9; // marker: excluded
                } else {
                    s.timedep = true;
                    s.dynhel = if dtnz { 2 } else { 1 };
                }
            }
            s
        })
        .boxed()
}

fn cart_steps(hk: bool, in_pipeline: bool, cap: u8, grids_ok: bool) -> Vec<(u32, BS<Step>)> {
    let mut v: Vec<(u32, BS<Step>)> = vec![(8, helmert(hk, in_pipeline))];
    v.push((3, ellps().prop_map(|e| Step::new(format!("cart{e}"), "cart", GeoRad, Cart, 0b0111, true).inverted()).boxed()));
    if grids_ok && cap == 0b1111 {
        v.push((5, deformation_step()));
    }
    v
}

fn georad_steps(la: i32, lo: i32, cap: u8, grids_ok: bool) -> Vec<(u32, BS<Step>)> {
    let mut v = projections(la, lo, cap);
    if cap & 0b0111 == 0b0111 {
        v.push((8, ellps().prop_map(|e| Step::new(format!("cart{e}"), "cart", GeoRad, Cart, 0b0111, true)).boxed()));
        let s = (dec(-2000, 2000, 10.0), dec(-2000, 2000, 10.0), dec(-2000, 2000, 10.0), sel(&[0u8, 1, 2]), any::<bool>(), ellps())
            .prop_map(|(dx, dy, dz, form, abridged, e)| {
                let p = match form {
                    0 => format!(" da=-251 df=-0.000014192702{e}"),
                    1 => " ellps_0=intl ellps_1=GRS80".to_string(),
                    _ => " ellps_0=bessel ellps_1=WGS84".to_string(),
                };
                Step::new(format!("molodensky dx={dx} dy={dy} dz={dz}{p}{}", if abridged { " abridged" } else { "" }), "molodensky", GeoRad, GeoRad, 0b0111, true)
            })
            .boxed();
        v.push((3, s));
        let s = (sel(&["mean", "zero", "free"]), sel(&["mean", "zero", "free"]), sel(&["", " k=0.3", " k=0.25"]), ellps())
            .prop_map(|(f, t, k, e)| Step::new(format!("permtide from={f} to={t}{k}{e}"), "permtide", GeoRad, GeoRad, 0b0100, true))
            .boxed();
        v.push((1, s));
    }
    let s = (sel(&["geocentric", "reduced", "parametric", "conformal", "authalic", "rectifying"]), ellps())
        .prop_map(|(f, e)| Step::new(format!("latitude {f}{e}"), "latitude", GeoRad, GeoRad, 0b0010, true))
        .boxed();
    v.push((2, s));
    v.push((3, sel(&["geo:out", "adapt to=neuf_deg"]).prop_map(|t| Step::new(t, "adapt", GeoRad, GeoDeg, 0b0011, true)).boxed()));
    v.push((1, sel(&["dm", "dms"]).prop_map(|t| Step::new(t, t, GeoDeg, GeoRad, 0b0011, true).inverted()).boxed()));
    if grids_ok {
        v.extend(gridshift_steps(cap));
    }
    v
}

fn geodeg_steps(cap: u8, grids_ok: bool, in_pipeline: bool) -> Vec<(u32, BS<Step>)> {
    let mut v: Vec<(u32, BS<Step>)> = vec![];
    v.push((8, sel(&["geo:in", "adapt from=neuf_deg", "geo:out inv"]).prop_map(|t| Step::new(t, "adapt", GeoDeg, GeoRad, 0b0011, true)).boxed()));
    v.push((1, sel(&["dm", "dms"]).prop_map(|t| Step::new(t, t, GeoDeg, GeoRad, 0b0011, true)).boxed()));
    if !in_pipeline || cap == 0b1111 {
        let s = (sel(&["prime", "meridian", "gaussian", "mean", "azimuthal"]), ellps())
            .prop_map(|(f, e)| Step::new(format!("curvature {f}{e}"), "curvature", GeoDeg, Any, 0b0011, false))
            .boxed();
        v.push((2, s));
        let s = (sel(&["", " cassinis", " jeffreys", " grs67", " grs80", " welmec"]), any::<bool>(), ellps())
            .prop_map(|(f, z, e)| Step::new(format!("gravity{f}{}{e}", if z { " zero-height" } else { "" }), "gravity", GeoDeg, Any, 0b0001, false))
            .boxed();
        v.push((2, s));
        if grids_ok {
            v.push((2, deflection_step()));
        }
    }
    v
}

fn perm_text(k: u16, len: usize, signs: u8) -> String {
    let p = permutation(len, 2 + k as u64);
    p.iter().enumerate().map(|(i, v)| format!("{}{}", if signs & (1 << i) != 0 { "-" } else { "" }, v + 1)).collect::<Vec<_>>().join(",")
}

const LIN: [&str; 8] = ["m", "km", "ft", "us-ft", "mm", "yd", "kmi", "ind-ch"];

/// depth-balanced stack block (several pipeline steps); dims restricted to `cap`
fn stack_block(cap: u8, allow_underflow: bool) -> BS<Step> {
    let dims: Vec<u8> = (1..=4u8).filter(|d| cap & (1 << (d - 1)) != 0).collect();
    let d2 = dims.clone();
    (
        prop::collection::vec(sel(&dims), 1..=4),
        prop::collection::vec((0u8..7, any::<u16>(), any::<u16>(), prop::collection::vec(sel(&d2), 1..=3)), 0..=3),
        prop::collection::vec(sel(&d2), 4),
        any::<bool>(),
        prop::bool::weighted(if allow_underflow { 0.06 } else { 0.0 }),
    )
        .prop_map(move |(push, inner, pops, legacy, underflow)| {
            let depth = push.len();
            // applied in the inverse direction the block pops into the pushed dimensions
            let mut mask = push.iter().fold(0u8, |m, d| m | (1 << (d - 1)));
            let list = |l: &[u8]| l.iter().map(|i| i.to_string()).collect::<Vec<_>>().join(",");
            let mut steps: Vec<String> = vec![];
            let distinct: BTreeSet<u8> = push.iter().cloned().collect();
            let use_legacy = legacy && distinct.len() == push.len() && inner.is_empty();
            if use_legacy {
                steps.push(format!("push{}", distinct.iter().map(|d| format!(" v_{d}")).collect::<String>()));
            } else {
                steps.push(format!("stack push={}", list(&push)));
            }
            for (kind, a, b, l) in &inner {
                match kind {
                    0 => {
                        steps.push("addone".into());
                        mask |= 1;
                    }
                    1 | 2 => {
                        let m = 1 + pick(*a, depth) as i64;
                        let n = pick(*b, 2 * m as usize - 1) as i64 - (m - 1);
                        steps.push(format!("stack {}={m},{n}", if *kind == 1 { "roll" } else { "unroll" }));
                    }
                    3 => {
                        if depth >= 2 {
                            steps.push("stack swap".into());
                        }
                    }
                    4 => {
                        let mut l = l.clone();
                        l.truncate(depth);
                        for d in &l {
                            mask |= 1 << (d - 1);
                        }
                        steps.push(format!("stack flip={}", list(&l)));
                    }
                    5 => {
                        if cap & 0b0111 == 0b0111 {
                            steps.push(format!("helmert x={} y=-2 z=0.5", (*a % 50) as f64 / 2.0));
                            mask |= 0b0111;
                        }
                    }
                    _ => {
                        if cap & 0b0011 == 0b0011 {
                            steps.push(format!("axisswap order={}", perm_text(*a, 2, (*b % 4) as u8)));
                            mask |= 0b0011;
                        }
                    }
                }
            }
            let mut pop: Vec<u8> = pops[..depth].to_vec();
            if underflow {
                pop.push(pops[0]);
                mask = 0b1111;
            }
            for d in &pop {
                mask |= 1 << (d - 1);
            }
            if use_legacy {
                // legacy pop: flags, popped in 4321 order; same number of flags as pushed
                steps.push(format!("pop{}", distinct.iter().map(|d| format!(" v_{d}")).collect::<String>()));
                for d in &distinct {
                    mask |= 1 << (d - 1);
                }
            } else {
                steps.push(format!("stack pop={}", list(&pop)));
            }
            Step::neutral(steps.join(" | "), "stack", mask, true)
        })
        .boxed()
}

fn neutral_steps(cap: u8, in_pipeline: bool) -> Vec<(u32, BS<Step>)> {
    let mut v: Vec<(u32, BS<Step>)> = vec![];
    v.push((2, Just(Step::neutral("addone", "addone", 0b0001, true)).boxed()));
    v.push((1, sel(&["noop", "longlat", "latlon", "latlong", "lonlat"]).prop_map(|t| Step::neutral(t, "noop", 0, false)).boxed()));
    let maxlen: usize = match cap {
        0b1111 => 4,
        0b0111 => 3,
        _ => 2,
    };
    let s = (2usize..=maxlen, any::<u16>(), 0u8..16)
        .prop_map(|(len, k, signs)| Step::neutral(format!("axisswap order={}", perm_text(k, len, signs)), "axisswap", (1u8 << len) - 1, true))
        .boxed();
    v.push((2, s));
    if cap == 0b1111 {
        let descr = ["enuf", "neuf", "wsdp", "nwuf", "enuf_deg", "neuf_gon", "fenu", "uenf_rad", "sedf"];
        let s = (sel(&descr), sel(&descr), sel(&[0u8, 1, 2]))
            .prop_map(|(f, t, form)| {
                let text = match form {
                    0 => format!("adapt from={f} to={t}"),
                    1 => format!("adapt from={f}"),
                    _ => format!("adapt to={t}"),
                };
                Step::neutral(text, "adapt", 0b1111, true)
            })
            .boxed();
        v.push((2, s));
    }
    v.push((1, sel(&["enu:in", "enu:out", "neu:in", "neu:out", "gis:in", "gis:out"]).prop_map(|t| Step::neutral(t, "adapt", 0b0011, true)).boxed()));
    let zok = cap & 0b0100 != 0;
    let s = (sel(&LIN), sel(&LIN), sel(&LIN), sel(&LIN))
        .prop_map(move |(a, b, c, d)| {
            if zok {
                Step::neutral(format!("unitconvert xy_in={a} xy_out={b} z_in={c} z_out={d}"), "unitconvert", 0b0111, true)
            } else {
                Step::neutral(format!("unitconvert xy_in={a} xy_out={b}"), "unitconvert", 0b0011, true)
            }
        })
        .boxed();
    v.push((2, s));
    if in_pipeline {
        v.push((4, stack_block(cap, cap == 0b1111)));
    } else {
        // stand-alone stack steps are documented no-ops returning 0
        v.push((1, sel(&["stack push=1,2", "stack pop=3", "stack swap", "stack roll=3,1", "push v_1", "pop v_2 v_3"]).prop_map(|t| Step::neutral(t, "stack", 0, false)).boxed()));
    }
    v
}

fn union(v: Vec<(u32, BS<Step>)>) -> BS<Step> {
    Union::new_weighted(v).boxed()
}

/// every step that accepts input of `kind`, plus neutral ones
fn steps_from(kind: Kind, la: i32, lo: i32, cap: u8, grids_ok: bool, hk: bool, in_pipeline: bool) -> BS<Step> {
    let specific: Vec<(u32, BS<Step>)> = match kind {
        GeoRad => georad_steps(la, lo, cap, grids_ok),
        GeoDeg => geodeg_steps(cap, grids_ok, in_pipeline),
        Cart => {
            if cap & 0b0111 == 0b0111 {
                cart_steps(hk, in_pipeline, cap, grids_ok)
            } else {
                vec![]
            }
        }
        Proj => projections(la, lo, cap).into_iter().map(|(w, s)| (w, s.prop_map(|s| s.inverted()).boxed())).collect(),
        _ => vec![],
    };
    let neutral = union(neutral_steps(cap, in_pipeline));
    if specific.is_empty() {
        neutral
    } else {
        prop_oneof![4 => union(specific), 1 => neutral].boxed()
    }
}

// ---- operator specifications -------------------------------------------------------------

fn sig_of(steps: &[Step], elementary: bool) -> String {
    let mark = |s: &Step| if s.dynhel == 1 || s.dynhel == 2 { format!("{}:dynamic", s.name) } else { s.name.clone() };
    if elementary {
        mark(&steps[0])
    } else {
        let set: BTreeSet<String> = steps.iter().map(mark).collect();
        format!("pipeline[{}]", set.into_iter().collect::<Vec<_>>().join(","))
    }
}

fn spec_from_steps(steps: Vec<Step>, la: i32, lo: i32, start: Kind, wrap: Option<(u16, u16)>) -> OpSpec {
    let elementary = steps.len() == 1 && !steps[0].text.contains('|');
    let mut kind = start;
    let mut in_centre = [F(0.0), F(0.0)];
    let mut out_centre = [F(0.0), F(0.0)];
    let mut seen_in = false;
    for s in &steps {
        if !s.neutral {
            if s.inn == Proj && !seen_in {
                in_centre = s.centre;
            }
            seen_in = true;
            if s.out == Proj {
                out_centre = s.centre;
            }
            kind = s.out;
        }
    }
    if steps.iter().all(|s| s.neutral) || (steps[0].neutral && start == Proj) {
        in_centre = [F(5e5), F(la as f64 * 111e3)];
    }
    if kind == Proj && steps.iter().all(|s| s.neutral || s.out != Proj) {
        out_centre = in_centre;
    }
    let mut texts: Vec<String> = steps.iter().map(|s| s.text.clone()).collect();
    let mut macros = vec![];
    if let Some((a, b)) = wrap {
        if texts.len() >= 2 {
            let i = pick(a, texts.len());
            let j = i + 1 + pick(b, texts.len() - i);
            let body = texts[i..j].join(" | ");
            texts.splice(i..j, ["c02:segment".to_string()]);
            macros.push(("c02:segment".to_string(), body));
        }
    }
    let mut grids = vec![];
    for s in &steps {
        grids.extend(s.grids.iter().cloned());
    }
    OpSpec {
        def: texts.join(" | "),
        macros,
        grids,
        la,
        lo,
        elementary,
        sig: sig_of(&steps, elementary),
        timedep: steps.iter().any(|s| s.timedep),
        dynhel: steps.iter().map(|s| if s.dynhel == 9 { 0 } else { s.dynhel }).max().unwrap_or(0)
            + if steps.iter().any(|s| s.dynhel == 9) { 16 } else { 0 },
        wmask: steps.iter().fold(0, |m, s| m | s.wmask),
        in_kind: start,
        out_kind: kind,
        in_centre,
        out_centre,
    }
}

fn region() -> BS<(i32, i32)> {
    (prop_oneof![3 => -60..=60i32, 1 => sel(&[0, 55, -33, 70])], prop_oneof![3 => -170..=170i32, 1 => sel(&[0, 12, 151, -40])]).boxed()
}

#[derive(Clone, Copy, Debug, PartialEq)]
enum Focus {
    All,
    Grid,
    Ntv2,
    Helmert,
}

/// one elementary operator (possibly with `inv`)
fn elementary_spec(hk: bool, focus: Focus) -> BS<OpSpec> {
    region()
        .prop_flat_map(move |(la, lo)| {
            let all: BS<Step> = match focus {
                Focus::Helmert => helmert(false, false),
                Focus::Ntv2 => ntv2_gridshift(false),
                Focus::Grid => {
                    let mut g = gridshift_steps(0b1111);
                    g.push((5, deformation_step()));
                    g.push((2, deflection_step()));
                    union(g)
                }
                Focus::All => {
                    let mut v = georad_steps(la, lo, 0b1111, true);
                    v.extend(geodeg_steps(0b1111, true, false));
                    v.extend(cart_steps(hk, false, 0b1111, true));
                    v.extend(neutral_steps(0b1111, false).into_iter().map(|(w, s)| (w * 2, s)));
                    let s = (any::<bool>(), ellps())
                        .prop_map(|(rev, e)| Step::new(format!("geodesic{}{e}", if rev { " reversible" } else { "" }), "geodesic", GeodFwd, GeodInv, 0b1111, true))
                        .boxed();
                    v.push((4, s));
                    union(v)
                }
            };
            (all, prop::bool::weighted(0.25), sel(&[GeoRad, Cart, Proj, GeoDeg, Any])).prop_map(move |(mut s, inv, anykind)| {
                if inv && s.invertible && !s.text.ends_with(" inv") {
                    s = s.inverted();
                }
                let start = if s.neutral { anykind } else { s.inn };
                let mut spec = spec_from_steps(vec![s], la, lo, start, None);
                if spec.out_kind == Any && spec.in_kind != Any && spec.wmask == 0 {
                    spec.out_kind = spec.in_kind;
                }
                spec
            })
        })
        .boxed()
}

fn chain(kind: Kind, len: usize, la: i32, lo: i32, cap: u8, grids_ok: bool, hk: bool) -> BS<Vec<Step>> {
    if len == 0 {
        return Just(vec![]).boxed();
    }
    steps_from(kind, la, lo, cap, grids_ok, hk, true)
        .prop_flat_map(move |s| {
            let next = if s.neutral { kind } else { s.out };
            chain(next, len - 1, la, lo, cap, grids_ok, hk).prop_map(move |mut rest| {
                rest.insert(0, s.clone());
                rest
            })
        })
        .boxed()
}

fn pipeline_spec(hk: bool, cap: u8, grids_ok: bool, maxlen: usize) -> BS<OpSpec> {
    let starts: Vec<Kind> = if cap & 0b0111 == 0b0111 { vec![GeoDeg, GeoRad, GeoRad, Cart, Cart, Proj] } else { vec![GeoDeg, GeoRad, GeoRad, Proj] };
    (region(), sel(&starts), 2..=maxlen)
        .prop_flat_map(move |((la, lo), start, len)| {
            (chain(start, len, la, lo, cap, grids_ok, hk), prop::option::weighted(0.2, (any::<u16>(), any::<u16>())))
                .prop_map(move |(steps, wrap)| spec_from_steps(steps, la, lo, start, wrap))
        })
        .boxed()
}

// ---- coordinate sets -----------------------------------------------------------------

#[derive(Clone, Debug)]
struct RawPt {
    cls: u8,
    u: [f64; 4],
    e: u16,
    dup: u16,
    k: u8,
    wild: P4,
}

fn raw_pt() -> impl Strategy<Value = RawPt> {
    (0u8..100, [0.0f64..1.0, 0.0f64..1.0, 0.0f64..1.0, 0.0f64..1.0], any::<u16>(), any::<u16>(), 0u8..8, any_p4_class())
        .prop_map(|(cls, u, e, dup, k, wild)| RawPt { cls, u, e, dup, k, wild })
}

fn raw_from_seed(mut h: u64) -> RawPt {
    let mut f = || (splitmix(&mut h) >> 11) as f64 / (1u64 << 53) as f64;
    let u = [f(), f(), f(), f()];
    let a = splitmix(&mut h);
    let specials = [f64::NAN, f64::INFINITY, 0.0, -0.0, 1e300, -1e300, 90.0, std::f64::consts::PI];
    let w = |i: u64| if (a >> (i * 4)) & 1 == 0 { specials[((a >> (i * 4 + 1)) & 7) as usize] } else { ((a >> (8 * i + 16)) & 0xffff) as f64 - 3e4 };
    RawPt { cls: (a % 100) as u8, u, e: (a >> 8) as u16, dup: (a >> 24) as u16, k: ((a >> 40) & 7) as u8, wild: p4(w(0), w(1), w(2), w(3)) }
}

/// sets of raw points; every alternative can shrink down to (almost) nothing
fn raw_sets(max: usize) -> BS<Vec<RawPt>> {
    let v = |lo: usize, hi: usize| prop::collection::vec(raw_pt(), lo..=hi.min(max).max(lo));
    prop_oneof![3 => v(0, 3), 9 => v(2, 12), 5 => v(2, 100), 2 => v(2, 600), 1 => v(2, max)].boxed()
}

fn epoch_pool() -> BS<Vec<F>> {
    prop::collection::vec(prop_oneof![8 => (0..30i32).prop_map(|k| F(2000.0 + k as f64)), 3 => dec(19900, 20300, 10.0).prop_map(F), 1 => Just(F(0.0))], 1..=4).boxed()
}

struct Dom {
    kind: Kind,
    la: f64,
    lo: f64,
    span: f64,
    centre: [f64; 2],
    uniform_t: bool,
    specials: Vec<[f64; 2]>, // (lon, lat) radians: positions on and around NTv2 sub-grid limits
}

fn geo_to_cart(lon: f64, lat: f64, h: f64) -> (f64, f64, f64) {
    let (s, c) = lat.sin_cos();
    let n = A / (1.0 - ES * s * s).sqrt();
    ((n + h) * c * lon.cos(), (n + h) * c * lon.sin(), (n * (1.0 - ES) + h) * s)
}

fn valid_pt(r: &RawPt, d: &Dom, t: f64) -> P4 {
    let u = r.u;
    let global = d.span >= 180.0;
    let lon = if global { u[0] * 360.0 - 180.0 } else { d.lo + (u[0] - 0.5) * 2.0 * d.span };
    let lat = if global { u[1] * 178.0 - 89.0 } else { (d.la + (u[1] - 0.5) * 2.0 * d.span).clamp(-89.5, 89.5) };
    let h = if u[2] < 0.4 { 0.0 } else { (u[2] - 0.4) / 0.6 * 9000.0 - 1000.0 };
    let kind = if d.kind == Any { [GeoRad, Cart, Proj, GeoDeg][(r.k % 4) as usize] } else { d.kind };
    match kind {
        GeoRad | Any => p4(lon.to_radians(), lat.to_radians(), h, t),
        GeoDeg => p4(lat, lon, h, t),
        Cart => {
            let (x, y, z) = geo_to_cart(lon.to_radians(), lat.to_radians(), h);
            p4(x, y, z, t)
        }
        Proj => {
            let ps = (d.span * 111e3).min(2e6);
            p4(d.centre[0] + (u[0] - 0.5) * 2.0 * ps, d.centre[1] + (u[1] - 0.5) * 2.0 * ps, h, t)
        }
        GeodFwd => p4(lat, lon, u[2] * 360.0, u[3] * u[3] * 1.5e7),
        GeodInv => p4(lat, lon, (lat + (u[2] - 0.5) * 40.0).clamp(-89.0, 89.0), lon + (u[3] - 0.5) * 80.0),
    }
}

fn odd_pt(r: &RawPt, d: &Dom, t: f64) -> P4 {
    use std::f64::consts::{FRAC_PI_2, PI};
    let k = r.k;
    match d.kind {
        GeoRad | Any => match k {
            0 => p4(d.lo.to_radians(), FRAC_PI_2, 0.0, t),
            1 => p4(d.lo.to_radians(), -FRAC_PI_2, 0.0, t),
            2 => p4(d.lo.to_radians(), 1.6, 0.0, t),
            3 => p4(4.0 * PI, d.la.to_radians(), 0.0, t),
            4 => p4(0.0, 0.0, 0.0, t),
            5 => p4(1e10, 1e10, 1e10, t),
            6 => p4(f64::INFINITY, d.la.to_radians(), 0.0, t),
            _ => p4((d.lo + 180.0).to_radians(), (-d.la).to_radians(), 0.0, t),
        },
        GeoDeg => match k {
            0 => p4(90.0, d.lo, 0.0, t),
            1 => p4(-90.0, d.lo, 0.0, t),
            2 => p4(100.0, d.lo, 0.0, t),
            3 => p4(d.la, 540.0, 0.0, t),
            4 => p4(0.0, 0.0, 0.0, t),
            5 => p4(1e10, -1e10, 1e10, t),
            6 => p4(d.la, f64::NEG_INFINITY, 0.0, t),
            _ => p4(-d.la, d.lo + 180.0, 0.0, t),
        },
        Cart => match k {
            0 => p4(0.0, 0.0, 0.0, t),
            1 => p4(0.0, 0.0, 6356752.314, t),
            2 => p4(1e-9, 0.0, -6.0e6, t),
            3 => p4(1e20, 1e20, 1e20, t),
            4 => p4(f64::INFINITY, 0.0, 0.0, t),
            5 => p4(6378137.0, 0.0, 0.0, t),
            6 => p4(-1.0, -1.0, -1.0, t),
            _ => p4(1e-300, 1e-300, 1e-300, t),
        },
        Proj => match k {
            0 => p4(1e9, 1e9, 0.0, t),
            1 => p4(0.0, 0.0, 0.0, t),
            2 => p4(-1e7, 2e7, 0.0, t),
            3 => p4(f64::INFINITY, 0.0, 0.0, t),
            4 => p4(1e300, -1e300, 0.0, t),
            5 => p4(d.centre[0], d.centre[1], 0.0, t),
            6 => p4(5e7, d.centre[1], 0.0, t),
            _ => p4(d.centre[0], 1e8, 0.0, t),
        },
        GeodFwd => match k {
            0 => p4(d.la, d.lo, 0.0, 0.0),
            1 => p4(90.0, d.lo, 45.0, 1e6),
            2 => p4(d.la, d.lo, 90.0, 3e7),
            3 => p4(d.la, d.lo, f64::NAN, 1e5),
            4 => p4(0.0, 0.0, 90.0, 2e7),
            _ => p4(d.la, d.lo, 720.0, -1e5),
        },
        GeodInv => match k {
            0 => p4(d.la, d.lo, d.la, d.lo),
            1 => p4(0.0, 0.0, 0.0, 180.0),
            2 => p4(0.0, 0.0, 0.0, 90.0),
            3 => p4(90.0, 0.0, -90.0, 0.0),
            4 => p4(d.la, d.lo, -d.la, d.lo + 180.0),
            _ => p4(d.la, d.lo, f64::INFINITY, 0.0),
        },
    }
}

/// 0 valid, 1 duplicate, 2 out-of-domain, 3 partial NaN, 4 all NaN, 5 wild, 6 special epoch, 7 lattice
fn class_of(cls: u8) -> u8 {
    match cls {
        0..=65 => 0,
        66..=73 => 1,
        74..=79 => 2,
        80..=83 => 3,
        84..=85 => 4,
        86..=91 => 5,
        92..=95 => 6,
        96..=99 => 7,
        _ => 0,
    }
}

fn build_pts(raw: &[RawPt], d: &Dom, epochs: &[F]) -> Vec<P4> {
    let mut out: Vec<P4> = Vec::with_capacity(raw.len());
    let t0 = epochs[0].0;
    for r in raw {
        let t = if d.uniform_t { t0 } else { epochs[pick(r.e, epochs.len())].0 };
        let mut p = match class_of(r.cls) {
            0 if r.cls < 30 && !d.specials.is_empty() && matches!(d.kind, GeoRad | GeoDeg) => {
                // on / next to a limit of an NTv2 sub-grid, or inside one
                let sp = d.specials[pick(r.dup, d.specials.len())];
                let mut p = valid_pt(r, d, t);
                if d.kind == GeoRad {
                    p[0] = F(sp[0]);
                    p[1] = F(sp[1]);
                } else {
                    p[0] = F(sp[1].to_degrees());
                    p[1] = F(sp[0].to_degrees());
                }
                p
            }
            1 if !out.is_empty() => out[pick(r.dup, out.len())],
            2 => odd_pt(r, d, t),
            3 => {
                let mut p = valid_pt(r, d, t);
                p[(r.k % 4) as usize] = F(f64::NAN);
                p
            }
            4 => p4(f64::NAN, f64::NAN, f64::NAN, f64::NAN),
            5 => r.wild,
            6 => {
                let s = [f64::NAN, f64::INFINITY, f64::NEG_INFINITY, -0.0, 1e300, 0.0, -2000.0, 1e-300][(r.k % 8) as usize];
                let mut p = valid_pt(r, d, t);
                if !matches!(d.kind, GeodFwd | GeodInv) {
                    p[3] = F(s);
                }
                p
            }
            7 => {
                // whole-degree lattice (step 1/4 of the span): tuples that share latitude, longitude
                // or height with a neighbour without being equal to it
                let mut q = r.clone();
                for v in q.u.iter_mut() {
                    *v = (*v * 4.0).floor() / 4.0;
                }
                valid_pt(&q, d, t)
            }
            _ => valid_pt(r, d, t),
        };
        if d.uniform_t && !matches!(d.kind, GeodFwd | GeodInv) {
            p[3] = F(t0);
        }
        out.push(p);
    }
    out
}

fn dom_for(spec: &OpSpec, fwd: bool, span: f64, hk: bool) -> Dom {
    Dom {
        kind: if fwd { spec.in_kind } else { spec.out_kind },
        la: spec.la as f64,
        lo: spec.lo as f64,
        span: if spec.grids.is_empty() { span } else { span.min(5.0) },
        centre: if fwd { [spec.in_centre[0].0, spec.in_centre[1].0] } else { [spec.out_centre[0].0, spec.out_centre[1].0] },
        uniform_t: hk && (spec.dynhel & 3) != 0,
        specials: spec.grids.iter().flat_map(|g| g.specials(spec.la, spec.lo)).collect(),
    }
}

fn spans() -> BS<f64> {
    sel(&[2.5, 4.0, 5.0, 20.0, 180.0])
}

// ---- the main case -------------------------------------------------------------------

#[derive(Clone, Debug, Serialize, Deserialize)]
struct Case {
    ctx: u8, // 0 Minimal, 1 Plain, 2 GridCtx (always GridCtx when grids are used)
    op: OpSpec,
    fwd: bool,
    pts: Vec<P4>,
    perm_seed: u64,
    cuts: Vec<u16>,
    hist: Vec<(u8, u16)>,
}

fn case_strategy(spec: BS<OpSpec>, maxn: usize, hk: bool) -> BS<Case> {
    (
        spec,
        0u8..3,
        prop::bool::weighted(0.7),
        raw_sets(maxn),
        (epoch_pool(), spans()),
        prop_oneof![1 => Just(0u64), 1 => Just(1u64), 6 => any::<u64>()],
        prop::collection::vec(any::<u16>(), 0..=5),
        prop::collection::vec((0u8..9, any::<u16>()), 0..=5),
    )
        .prop_map(move |(op, ctx, fwd, raw, (epochs, span), perm_seed, cuts, hist)| {
            let d = dom_for(&op, fwd, span, hk);
            let pts = build_pts(&raw, &d, &epochs);
            Case { ctx, op, fwd, pts, perm_seed, cuts, hist }
        })
        .boxed()
}

// ---- running the library --------------------------------------------------------------

fn dirname(fwd: bool) -> &'static str {
    if fwd {
        "Fwd"
    } else {
        "Inv"
    }
}

fn make_gridctx(spec: &OpSpec) -> Result<GridCtx, String> {
    let mut ctx = GridCtx::new();
    for g in &spec.grids {
        let bytes = g.bytes(spec.la, spec.lo)?;
        ctx.add_grid_bytes(&g.name, &bytes).map_err(|e| format!("grid {} rejected: {e:?}", g.name))?;
    }
    Ok(ctx)
}

/// register macros and instantiate; Ok(None) = definition rejected (generator problem, counted)
fn instantiate<C: Context>(ctx: &mut C, spec: &OpSpec) -> Result<Option<OpHandle>, Failure> {
    for (name, body) in &spec.macros {
        ctx.register_resource(name, body);
    }
    match try_op(ctx, &spec.def) {
        Err(p) => vfail!(format!("panic-instantiate@{}", p.sig()), "instantiating '{}' panics: {} at {}:{}", spec.def, p.msg, p.file, p.line),
        Ok(Err(_)) => Ok(None),
        Ok(Ok(h)) => Ok(Some(h)),
    }
}

fn app<C: Context>(ctx: &C, h: OpHandle, fwd: bool, data: &mut dyn CoordinateSet, spec: &OpSpec, what: &str) -> Result<usize, Failure> {
    match try_apply(ctx, h, dir_of(fwd), data) {
        Err(p) => vfail!(format!("panic-apply@{}", p.sig()), "applying '{}' ({}) [{what}] panics: {} at {}:{}", spec.def, dirname(fwd), p.msg, p.file, p.line),
        Ok(Err(e)) => vfail!("apply-error", "apply of '{}' ({}) [{what}] returned an error: {e:?}", spec.def, dirname(fwd)),
        Ok(Ok(c)) => Ok(c),
    }
}

fn distinct_epochs(pts: &[Coor4D]) -> usize {
    let mut s = BTreeSet::new();
    for p in pts {
        s.insert(if p[3].is_nan() { u64::MAX } else { p[3].to_bits() });
    }
    s.len()
}

/// Key of a relation failure. The registered helmert finding gets its own key when the
/// failing case lies in its class (dynamic helmert without t_obs, >= 2 distinct epochs and a
/// non-zero translation rate, or any non-finite epoch next to other tuples).
fn rel_key(rel: &str, spec: &OpSpec, pts: &[Coor4D], helmert_section: bool) -> String {
    let dh = spec.dynhel & 3;
    if helmert_section && dh != 0 && pts.len() >= 2 {
        let nonfinite = pts.iter().any(|p| !p[3].is_finite());
        let in_class = if spec.elementary { (dh == 2 && distinct_epochs(pts) >= 2) || nonfinite } else { true };
        if in_class {
            return HELMERT_KEY.to_string();
        }
    }
    format!("{rel}@{}", spec.sig)
}

struct Whole {
    out: Vec<Coor4D>,
    count: usize,
}

fn describe(spec: &OpSpec, fwd: bool) -> String {
    let mut s = format!("definition '{}' ({})", spec.def, dirname(fwd));
    for (n, b) in &spec.macros {
        s += &format!(", macro {n} = '{b}'");
    }
    if !spec.grids.is_empty() {
        s += &format!(", {} generated grid(s) around lat {} lon {}", spec.grids.len(), spec.la, spec.lo);
        for g in &spec.grids {
            for r in g.rects(spec.la, spec.lo) {
                s += &format!("\n   NTv2 {} {}sub-grid {} (parent {}): lat {}..{} lon {}..{} deg, spacing {} arcsec", g.name, if r.leaf { "leaf " } else { "" }, r.name, r.parent, r.s as f64 / 3600., r.n as f64 / 3600., r.w as f64 / 3600., r.e as f64 / 3600., r.dlat);
            }
        }
    }
    s
}

/// All relations on Vec<Coor4D>. `helmert_section` only changes the failure key.
fn relations<C: Context>(ctx: &mut C, h: OpHandle, case: &Case, rec: &mut Rec, helmert_section: bool, fresh: &dyn Fn(&OpSpec, &[Coor4D], bool) -> Result<Option<Whole>, Failure>) -> CaseResult {
    let spec = &case.op;
    let fwd = case.fwd;
    let input: Vec<Coor4D> = c4s(&case.pts);
    let n = input.len();
    let what = describe(spec, fwd);
    let key = |rel: &str| rel_key(rel, spec, &input, helmert_section);

    // 1. the whole set
    let mut out_w = input.clone();
    let count_w = app(ctx, h, fwd, &mut out_w, spec, "whole set")?;
    vensure!(count_w <= n, key("count-exceeds-length"), "{what}: {count_w} successes reported for {n} tuples");

    // 2. singletons
    let mut one: Vec<Coor4D> = Vec::with_capacity(1);
    let mut sum = 0usize;
    // in reverse order: anything carried over from one apply call to the next (in the handle, the
    // context or a shared resource) then meets another predecessor than inside the set
    for i in (0..n).rev() {
        one.clear();
        one.push(input[i]);
        let c = app(ctx, h, fwd, &mut one, spec, "singleton")?;
        sum += c;
        if !c4_bits_eq(&one[0], &out_w[i]) {
            let epochs: Vec<f64> = input.iter().take(i + 1).rev().take(4).rev().map(|p| p[3]).collect();
            vfail!(
                key("singleton"),
                "{what}: tuple {i} of {n} transformed within the set differs from the same tuple transformed alone\n input  {}\n in set {}\n alone  {}\n epochs of the tuples up to this one (last 4): {epochs:?}",
                fmt_c4(&input[i]),
                fmt_c4(&out_w[i]),
                fmt_c4(&one[0])
            );
        }
    }
    if spec.elementary {
        vensure!(count_w == sum, key("count-sum"), "{what}: success count of the whole set ({count_w}) differs from the sum over the {n} singletons ({sum})");
    } else {
        vensure!(count_w >= sum, key("count-pipeline-below-parts"), "{what}: pipeline success count of the whole set ({count_w}) is below the sum over the {n} singletons ({sum})");
    }

    // 3. permutation
    let perm = permutation(n, case.perm_seed);
    let mut out_p: Vec<Coor4D> = perm.iter().map(|&j| input[j]).collect();
    let count_p = app(ctx, h, fwd, &mut out_p, spec, "permuted set")?;
    for (j, &src) in perm.iter().enumerate() {
        if !c4_bits_eq(&out_p[j], &out_w[src]) {
            vfail!(
                key("permutation"),
                "{what}: tuple {src} of {n} gives a different result when the set is permuted (it is then at position {j})\n input     {}\n original  {}\n permuted  {}",
                fmt_c4(&input[src]),
                fmt_c4(&out_w[src]),
                fmt_c4(&out_p[j])
            );
        }
    }
    vensure!(count_p == count_w, key("count-permutation"), "{what}: success count {count_w} becomes {count_p} when the {n} tuples are permuted");

    // 4. chunking (empty chunks included)
    let mut cuts: Vec<usize> = case.cuts.iter().map(|c| pick(*c, n + 1)).collect();
    cuts.push(0);
    cuts.push(n);
    cuts.sort();
    let mut sum_chunks = 0usize;
    let mut nchunks = 0;
    for w in cuts.windows(2) {
        let (a, b) = (w[0], w[1]);
        let mut chunk: Vec<Coor4D> = input[a..b].to_vec();
        sum_chunks += app(ctx, h, fwd, &mut chunk, spec, "chunk")?;
        nchunks += 1;
        for (k, c) in chunk.iter().enumerate() {
            if !c4_bits_eq(c, &out_w[a + k]) {
                vfail!(
                    key("chunking"),
                    "{what}: tuple {} of {n} gives a different result when the set is processed in chunks (chunk {a}..{b})\n input    {}\n whole    {}\n chunked  {}",
                    a + k,
                    fmt_c4(&input[a + k]),
                    fmt_c4(&out_w[a + k]),
                    fmt_c4(c)
                );
            }
        }
    }
    if spec.elementary {
        vensure!(sum_chunks == count_w, key("count-chunks"), "{what}: success counts of {nchunks} chunks sum to {sum_chunks}, the whole set gives {count_w}");
    } else {
        vensure!(sum_chunks <= count_w, key("count-pipeline-below-parts"), "{what}: pipeline success counts of {nchunks} chunks sum to {sum_chunks} > whole set {count_w}");
    }

    // 5. history of other applications on the same handle, then a fresh copy again
    for (kind, a) in &case.hist {
        match kind {
            0 => {
                let mut d = input[..pick(*a, n + 1)].to_vec();
                app(ctx, h, fwd, &mut d, spec, "history: prefix")?;
            }
            1 => {
                let mut d = input.clone();
                app(ctx, h, !fwd, &mut d, spec, "history: opposite direction")?;
            }
            2 => {
                let mut d: Vec<Coor4D> = input.iter().rev().cloned().collect();
                app(ctx, h, fwd, &mut d, spec, "history: reversed")?;
            }
            3 => {
                let mut d: Vec<Coor4D> = vec![];
                let c = app(ctx, h, fwd, &mut d, spec, "history: empty set")?;
                vensure!(c == 0, key("count-empty-set"), "{what}: {c} successes reported for the empty set");
            }
            4 => {
                // one tuple with an outlandish epoch
                let mut c = if n > 0 { input[pick(*a, n)] } else { Coor4D([1.0, 2.0, 3.0, 4.0]) };
                c[3] = [f64::NAN, 1e9, -1e9, f64::INFINITY][(*a % 4) as usize];
                let mut d = [c];
                app(ctx, h, fwd, &mut d, spec, "history: odd epoch")?;
            }
            5 => {
                // a second instantiation of the same definition in the same context
                if let Some(h2) = instantiate(ctx, spec)? {
                    let mut d = input.clone();
                    let c2 = app(ctx, h2, fwd, &mut d, spec, "history: second handle")?;
                    if let Some(i) = first_bits_diff(&d, &out_w) {
                        vfail!(key("second-handle"), "{what}: a second instantiation of the same definition in the same context gives a different result for tuple {i}\n input  {}\n first  {}\n second {}", fmt_c4(&input[i]), fmt_c4(&out_w[i]), fmt_c4(&d[i]));
                    }
                    vensure!(c2 == count_w, key("second-handle"), "{what}: second instantiation counts {c2}, first {count_w}");
                }
            }
            6 => {
                let mut d = out_w.clone();
                app(ctx, h, fwd, &mut d, spec, "history: applied to its own output")?;
                app(ctx, h, !fwd, &mut d, spec, "history: and back")?;
            }
            7 => {
                let mut d: Vec<Coor2D> = input.iter().map(|c| Coor2D([c[0], c[1]])).collect();
                app(ctx, h, fwd, &mut d, spec, "history: 2-D container")?;
            }
            _ => {
                let mut d: Vec<Coor4D> = input.iter().map(|c| Coor4D([c[3], c[2], c[1], c[0]])).collect();
                app(ctx, h, fwd, &mut d, spec, "history: scrambled tuples")?;
            }
        }
    }
    let mut out_r = input.clone();
    let count_r = app(ctx, h, fwd, &mut out_r, spec, "repeated application")?;
    if let Some(i) = first_bits_diff(&out_r, &out_w) {
        vfail!(
            key("repeat"),
            "{what}: a repeated application to a fresh copy (after history {:?}) differs from the first one at tuple {i} of {n}\n input   {}\n first   {}\n repeat  {}",
            case.hist,
            fmt_c4(&input[i]),
            fmt_c4(&out_w[i]),
            fmt_c4(&out_r[i])
        );
    }
    vensure!(count_r == count_w, key("repeat"), "{what}: repeated application counts {count_r}, the first one {count_w} (history {:?})", case.hist);

    // 6. a fresh context and handle
    if case.perm_seed % 4 == 0 {
        if let Some(f) = fresh(spec, &input, fwd)? {
            if let Some(i) = first_bits_diff(&f.out, &out_w) {
                vfail!(key("fresh-context"), "{what}: the same definition instantiated in a fresh context gives a different result for tuple {i}\n input {}\n first {}\n fresh {}", fmt_c4(&input[i]), fmt_c4(&out_w[i]), fmt_c4(&f.out[i]));
            }
            vensure!(f.count == count_w, key("fresh-context"), "{what}: fresh context counts {}, first {count_w}", f.count);
        }
    }

    // ---- bookkeeping -------------------------------------------------------------------
    let nd = distinct_epochs(&input);
    let bad = |c: &Coor4D| c.0.iter().any(|v| !v.is_finite());
    let n_bad_in = input.iter().filter(|c| bad(c)).count();
    let n_bad_out = out_w.iter().filter(|c| bad(c)).count();
    let moved = (0..n).any(|i| !bad(&out_w[i]) && !c4_bits_eq(&out_w[i], &input[i]));
    let identity_perm = perm.iter().enumerate().all(|(i, p)| i == *p);
    rec.class(&format!("op:{}", if spec.elementary { spec.sig.clone() } else { "pipeline".into() }));
    rec.class(if fwd { "dir:fwd" } else { "dir:inv" });
    rec.class(match n {
        0 => "n:0",
        1 => "n:1",
        2..=12 => "n:2-12",
        13..=100 => "n:13-100",
        101..=600 => "n:101-600",
        _ => "n:>600",
    });
    rec.class(["ctx:minimal", "ctx:plain", "ctx:gridctx"][if spec.grids.is_empty() { case.ctx as usize % 3 } else { 2 }]);
    if spec.timedep && nd >= 2 {
        rec.class("timedep-with-mixed-epochs");
    }
    if n_bad_out > 0 && n_bad_out < n {
        rec.class("failing-member-next-to-valid");
    }
    if n_bad_in > 0 && n_bad_in < n {
        rec.class("nan-or-inf-member-next-to-finite");
    }
    if !spec.macros.is_empty() {
        rec.class("uses-macro");
    }
    if HK.load(std::sync::atomic::Ordering::Relaxed) && !helmert_section && (spec.dynhel & 16 != 0 || spec.dynhel & 3 != 0) {
        rec.count("excluded_known", 1);
    }
    // NTv2: where do the tuples lie relative to the child sub-grids?
    if (if fwd { spec.in_kind } else { spec.out_kind }) == GeoRad {
        for g in spec.grids.iter().filter(|g| g.nt.is_some()) {
            for r in g.rects(spec.la, spec.lo).iter().filter(|r| r.parent != "NONE") {
                let (s, nn, w, e) = (r.lat(r.s as f64), r.lat(r.n as f64), r.lon(r.w as f64), r.lon(r.e as f64));
                for c in &input {
                    let inside_lat = c[1] >= s && c[1] <= nn;
                    let inside_lon = c[0] >= w && c[0] <= e;
                    if inside_lat && inside_lon {
                        if c[1] == nn || c[0] == e {
                            rec.count("ntv2_tuples_exactly_on_upper_limit_of_a_child", 1);
                        } else if c[1] == s || c[0] == w {
                            rec.count("ntv2_tuples_exactly_on_lower_limit_of_a_child", 1);
                        } else {
                            rec.count("ntv2_tuples_inside_a_child", 1);
                        }
                    }
                }
            }
        }
    }
    rec.count("tuples", n as u64);
    rec.count("applications", (n + 3 + nchunks + case.hist.len()) as u64);
    if count_w == n && n > 0 {
        rec.class("count:all");
    } else if count_w == 0 && n > 0 {
        rec.class("count:none");
    } else if n > 0 {
        rec.class("count:some");
    }
    let nt = n >= 2 && moved && ((spec.timedep && nd >= 2) || (n_bad_out > 0 && n_bad_out < n) || !identity_perm);
    if nt {
        let fp: Vec<u64> = input.iter().take(3).flat_map(|c| c.0.iter().map(|v| v.to_bits()).collect::<Vec<_>>()).collect();
        rec.nontrivial(&(&spec.def, fwd, n, fp, case.perm_seed));
    } else {
        rec.class("trivial");
    }
    Ok(())
}

fn fresh_whole<C: Context>(mut ctx: C, spec: &OpSpec, input: &[Coor4D], fwd: bool) -> Result<Option<Whole>, Failure> {
    let Some(h) = instantiate(&mut ctx, spec)? else { return Ok(None) };
    let mut out = input.to_vec();
    let count = app(&ctx, h, fwd, &mut out, spec, "fresh context")?;
    Ok(Some(Whole { out, count }))
}

fn fresh_any(ctxkind: u8) -> impl Fn(&OpSpec, &[Coor4D], bool) -> Result<Option<Whole>, Failure> {
    move |spec, input, fwd| {
        if !spec.grids.is_empty() {
            match make_gridctx(spec) {
                Ok(c) => fresh_whole(c, spec, input, fwd),
                Err(_) => Ok(None),
            }
        } else {
            // deliberately a different provider than the one under test
            match (ctxkind + 1) % 3 {
                0 => fresh_whole(Minimal::new(), spec, input, fwd),
                1 => fresh_whole(Plain::new(), spec, input, fwd),
                _ => fresh_whole(GridCtx::new(), spec, input, fwd),
            }
        }
    }
}

fn run_case<C: Context>(mut ctx: C, case: &Case, rec: &mut Rec, helmert_section: bool) -> CaseResult {
    let Some(h) = instantiate(&mut ctx, &case.op)? else {
        rec.count("rejected_definition", 1);
        rec.class("rejected-definition");
        return Ok(());
    };
    relations(&mut ctx, h, case, rec, helmert_section, &fresh_any(case.ctx))
}

fn check(case: &Case, rec: &mut Rec, helmert_section: bool) -> CaseResult {
    if !case.op.grids.is_empty() {
        match make_gridctx(&case.op) {
            Ok(ctx) => run_case(ctx, case, rec, helmert_section),
            Err(_) => {
                rec.count("rejected_grid", 1);
                Ok(())
            }
        }
    } else {
        match case.ctx % 3 {
            0 => run_case(Minimal::new(), case, rec, helmert_section),
            1 => run_case(Plain::new(), case, rec, helmert_section),
            _ => run_case(GridCtx::new(), case, rec, helmert_section),
        }
    }
}

// ---- containers -------------------------------------------------------------------------

#[derive(Clone, Debug, Serialize, Deserialize)]
struct CCase {
    ctx: u8,
    op: OpSpec,
    fwd: bool,
    pts: Vec<P4>,
    h: F,
    t: F,
}

struct Env<'a, C: Context> {
    ctx: &'a C,
    h: OpHandle,
    spec: &'a OpSpec,
    fwd: bool,
}

/// One container kind. The reference input is what the documentation of `CoordinateSet` says the
/// container exposes (2-D: h = 0, t = NaN; 3-D: t = NaN; adapters: the fixed values; Coor32: the f32
/// values), in a Vec<Coor4D>. Compared in the dimensions the container carries (`carry`).
#[allow(clippy::too_many_arguments)]
fn one_kind<C: Context, S: CoordinateSet>(env: &Env<C>, label: &str, base: &str, mut set: S, seen: &[Coor4D], carry: u8, is32: bool, rec: &mut Rec) -> CaseResult {
    let spec = env.spec;
    if !spec.elementary && (is32 || spec.wmask & !carry != 0) {
        rec.count("kinds_skipped_pipeline_writes_uncarried_dimension", 1);
        return Ok(());
    }
    let n = set.len();
    let seen = &seen[..n];
    let mut reference = seen.to_vec();
    let cr = app(env.ctx, env.h, env.fwd, &mut reference, spec, "reference Vec<Coor4D>")?;
    let cs = app(env.ctx, env.h, env.fwd, &mut set, spec, label)?;
    let mut moved = false;
    for i in 0..n {
        let got = set.get_coord(i);
        for d in 0..4 {
            if carry & (1 << d) == 0 {
                continue;
            }
            let exp = if is32 { reference[i][d] as f32 as f64 } else { reference[i][d] };
            if !bits_eq(got[d], exp) {
                vfail!(
                    format!("container:{base}@{}", spec.sig),
                    "{}: element {d} of tuple {i} presented through {label} differs from the same tuple in a Vec<Coor4D>\n tuple as the container is documented to expose it {}\n result in Vec<Coor4D> {}\n result read back from the container {}{}",
                    describe(spec, env.fwd),
                    fmt_c4(&seen[i]),
                    fmt_c4(&reference[i]),
                    fmt_c4(&got),
                    if is32 { " (expected: the Vec<Coor4D> value rounded to f32)" } else { "" }
                );
            }
            if exp.is_finite() && !bits_eq(exp, seen[i][d]) {
                moved = true;
            }
        }
    }
    if !is32 {
        vensure!(cr == cs, format!("container-count:{base}@{}", spec.sig), "{}: success count {cs} through {label}, {cr} for the same tuples in a Vec<Coor4D>", describe(spec, env.fwd));
    }
    rec.class(&format!("container:{label}"));
    rec.count("container_applications", 1);
    if moved && n > 0 {
        rec.nontrivial(&(&spec.def, env.fwd, label, n, seen.first().map(|c| c[0].to_bits())));
    }
    Ok(())
}

macro_rules! all_shapes {
    ($env:expr, $rec:expr, $T:ty, $tname:expr, $v:expr, $doc:expr, $carry:expr, $carry_t:expr, $carry_ht:expr, $is32:expr, $h:expr, $t:expr) => {{
        let v: Vec<$T> = $v;
        let (h, t) = ($h, $t);
        let doc = $doc;
        let s0: Vec<Coor4D> = v.iter().map(|c| doc(c)).collect();
        let s1: Vec<Coor4D> = s0.iter().map(|c| Coor4D([c[0], c[1], c[2], t])).collect();
        let s2: Vec<Coor4D> = s0.iter().map(|c| Coor4D([c[0], c[1], h, t])).collect();
        // vectors
        one_kind($env, &format!("Vec<{}>", $tname), $tname, v.clone(), &s0, $carry, $is32, $rec)?;
        one_kind($env, &format!("(Vec<{}>, t)", $tname), &format!("{}+t", $tname), (v.clone(), t), &s1, $carry_t, $is32, $rec)?;
        one_kind($env, &format!("(Vec<{}>, h, t)", $tname), &format!("{}+h+t", $tname), (v.clone(), h, t), &s2, $carry_ht, $is32, $rec)?;
        // slices
        {
            let mut a = v.clone();
            one_kind($env, &format!("&mut [{}]", $tname), $tname, &mut a[..], &s0, $carry, $is32, $rec)?;
            let mut a = v.clone();
            one_kind($env, &format!("(&mut [{}], t)", $tname), &format!("{}+t", $tname), (&mut a[..], t), &s1, $carry_t, $is32, $rec)?;
            let mut a = v.clone();
            one_kind($env, &format!("(&mut [{}], h, t)", $tname), &format!("{}+h+t", $tname), (&mut a[..], h, t), &s2, $carry_ht, $is32, $rec)?;
        }
        // arrays of the largest supported length not exceeding the set
        macro_rules! arr {
            ($N:literal) => {{
                let a: [$T; $N] = std::array::from_fn(|i| v[i]);
                one_kind($env, &format!("[{}; N]", $tname), $tname, a, &s0, $carry, $is32, $rec)?;
                one_kind($env, &format!("([{}; N], t)", $tname), &format!("{}+t", $tname), (a, t), &s1, $carry_t, $is32, $rec)?;
                one_kind($env, &format!("([{}; N], h, t)", $tname), &format!("{}+h+t", $tname), (a, h, t), &s2, $carry_ht, $is32, $rec)?;
            }};
        }
        match v.len() {
            0 => arr!(0),
            1 => arr!(1),
            2 => arr!(2),
            3 | 4 => arr!(3),
            5..=7 => arr!(5),
            8..=20 => arr!(8),
            _ => arr!(21),
        }
    }};
}

fn containers<C: Context>(mut ctx: C, case: &CCase, rec: &mut Rec) -> CaseResult {
    let Some(hd) = instantiate(&mut ctx, &case.op)? else {
        rec.count("rejected_definition", 1);
        return Ok(());
    };
    let env = Env { ctx: &ctx, h: hd, spec: &case.op, fwd: case.fwd };
    let p = c4s(&case.pts);
    let (h, t) = (case.h.0, case.t.0);
    all_shapes!(&env, rec, Coor4D, "Coor4D", p.clone(), |c: &Coor4D| *c, 0b1111, 0b0111, 0b0011, false, h, t);
    all_shapes!(&env, rec, Coor3D, "Coor3D", p.iter().map(|c| Coor3D([c[0], c[1], c[2]])).collect(), |c: &Coor3D| Coor4D([c[0], c[1], c[2], f64::NAN]), 0b0111, 0b0111, 0b0011, false, h, t);
    all_shapes!(&env, rec, Coor2D, "Coor2D", p.iter().map(|c| Coor2D([c[0], c[1]])).collect(), |c: &Coor2D| Coor4D([c[0], c[1], 0.0, f64::NAN]), 0b0011, 0b0011, 0b0011, false, h, t);
    all_shapes!(&env, rec, Coor32, "Coor32", p.iter().map(|c| Coor32([c[0] as f32, c[1] as f32])).collect(), |c: &Coor32| Coor4D([c[0] as f64, c[1] as f64, 0.0, f64::NAN]), 0b0011, 0b0011, 0b0011, true, h, t);
    rec.class(&format!("op:{}", if case.op.elementary { case.op.sig.clone() } else { format!("pipeline-writes-{:04b}", case.op.wmask) }));
    Ok(())
}

fn check_containers(case: &CCase, rec: &mut Rec) -> CaseResult {
    if !case.op.grids.is_empty() {
        match make_gridctx(&case.op) {
            Ok(ctx) => containers(ctx, case, rec),
            Err(_) => Ok(()),
        }
    } else {
        match case.ctx % 3 {
            0 => containers(Minimal::new(), case, rec),
            1 => containers(Plain::new(), case, rec),
            _ => containers(GridCtx::new(), case, rec),
        }
    }
}

fn ccase_strategy(hk: bool) -> BS<CCase> {
    let spec = prop_oneof![
        5 => elementary_spec(hk, Focus::All),
        3 => pipeline_spec(hk, 0b0011, true, 5),
        2 => pipeline_spec(hk, 0b0111, true, 5),
        1 => pipeline_spec(hk, 0b1111, true, 4),
    ];
    (
        spec,
        0u8..3,
        prop::bool::weighted(0.7),
        raw_sets(25),
        (epoch_pool(), spans()),
        sel(&[0.0, 100.5, -30.0, f64::NAN]),
        sel(&[2000.0, 2017.5, 0.0, f64::NAN, 1e9]),
    )
        .prop_map(move |(op, ctx, fwd, raw, (epochs, span), h, t)| {
            let d = dom_for(&op, fwd, span, hk);
            let pts = build_pts(&raw, &d, &epochs);
            CCase { ctx, op, fwd, pts, h: F(h), t: F(t) }
        })
        .boxed()
}

// ---- stack programs ---------------------------------------------------------------------

#[derive(Clone, Debug)]
enum Ins {
    Push(Vec<u8>),
    Pop(Vec<u8>),
    Flip(Vec<u8>),
    Roll(i64, i64),
    Unroll(i64, i64),
    Swap,
    LPush(u8),
    LPop(u8),
    Other(Step),
}

impl Ins {
    fn text(&self) -> String {
        let list = |l: &[u8]| l.iter().map(|i| i.to_string()).collect::<Vec<_>>().join(",");
        let flags = |m: u8| (0..4).filter(|i| m & (1 << i) != 0).map(|i| format!(" v_{}", i + 1)).collect::<String>();
        match self {
            Ins::Push(l) => format!("stack push={}", list(l)),
            Ins::Pop(l) => format!("stack pop={}", list(l)),
            Ins::Flip(l) => format!("stack flip={}", list(l)),
            Ins::Roll(m, n) => format!("stack roll={m},{n}"),
            Ins::Unroll(m, n) => format!("stack unroll={m},{n}"),
            Ins::Swap => "stack swap".into(),
            Ins::LPush(m) => format!("push{}", flags(*m)),
            Ins::LPop(m) => format!("pop{}", flags(*m)),
            Ins::Other(s) => s.text.clone(),
        }
    }
    /// the instruction which, executed in the inverse direction, acts as `self` does forward
    fn mirrored(&self) -> Ins {
        match self {
            Ins::Push(l) => Ins::Pop(l.iter().rev().cloned().collect()),
            Ins::Pop(l) => Ins::Push(l.iter().rev().cloned().collect()),
            Ins::Roll(m, n) => Ins::Unroll(*m, *n),
            Ins::Unroll(m, n) => Ins::Roll(*m, *n),
            Ins::LPush(m) => Ins::LPop(*m),
            Ins::LPop(m) => Ins::LPush(*m),
            o => o.clone(),
        }
    }
}

fn stack_case(hk: bool, maxlen: usize, maxn: usize) -> BS<Case> {
    let other = prop_oneof![
        2 => Just(Step::neutral("addone", "addone", 1, true)),
        3 => helmert(hk, true),
        2 => union(neutral_steps(0b1111, false)),
        1 => ellps().prop_map(|e| Step::new(format!("cart{e}"), "cart", GeoRad, Cart, 0b0111, true)),
    ];
    let raw = (0u8..13, any::<u16>(), any::<u16>(), prop::collection::vec(1u8..=4, 1..=4), prop::bool::weighted(0.03), other);
    (
        prop::collection::vec(raw, 2..=maxlen),
        any::<bool>(),
        0u8..3,
        raw_sets(maxn),
        (epoch_pool(), spans(), region()),
        prop_oneof![1 => Just(0u64), 1 => Just(1u64), 6 => any::<u64>()],
        prop::collection::vec(any::<u16>(), 0..=4),
        prop::collection::vec((0u8..9, any::<u16>()), 0..=4),
    )
        .prop_map(move |(raw, fwd, ctx, pts, (epochs, span, (la, lo)), perm_seed, cuts, hist)| {
            // depth-aware interpretation in execution order (as in the C12 check)
            let mut depth = 0usize;
            let mut exec: Vec<Ins> = vec![];
            for (kind, a, b, l, free, other) in raw {
                let mut l = l;
                let ins = match kind {
                    0..=2 => {
                        depth += l.len();
                        Ins::Push(l)
                    }
                    3 | 4 => {
                        if !free {
                            l.truncate(depth);
                        }
                        if l.is_empty() {
                            depth += 1;
                            Ins::Push(vec![1 + (a % 4) as u8])
                        } else {
                            depth = depth.saturating_sub(l.len());
                            Ins::Pop(l)
                        }
                    }
                    5 => {
                        if !free {
                            l.truncate(depth);
                        }
                        if l.is_empty() {
                            Ins::Other(other)
                        } else {
                            Ins::Flip(l)
                        }
                    }
                    6 | 7 => {
                        let maxm = if free { 8 } else { depth.min(8) };
                        if maxm == 0 {
                            Ins::Other(other)
                        } else {
                            let m = 1 + pick(a, maxm) as i64;
                            let n = pick(b, 2 * m as usize - 1) as i64 - (m - 1);
                            if kind == 6 {
                                Ins::Roll(m, n)
                            } else {
                                Ins::Unroll(m, n)
                            }
                        }
                    }
                    8 => {
                        if depth >= 2 || free {
                            Ins::Swap
                        } else {
                            Ins::Other(other)
                        }
                    }
                    9 => {
                        let mask = (a % 16) as u8;
                        depth += mask.count_ones() as usize;
                        Ins::LPush(mask)
                    }
                    10 => {
                        let mut mask = (a % 16) as u8;
                        if !free {
                            while mask.count_ones() as usize > depth {
                                mask &= mask - 1;
                            }
                        }
                        depth = depth.saturating_sub(mask.count_ones() as usize);
                        Ins::LPop(mask)
                    }
                    _ => Ins::Other(other),
                };
                exec.push(ins);
            }
            let prog: Vec<Ins> = if fwd { exec } else { exec.iter().rev().map(|i| i.mirrored()).collect() };
            let mut steps: Vec<Step> = vec![];
            for i in &prog {
                steps.push(match i {
                    Ins::Other(s) => {
                        let mut s = s.clone();
                        s.neutral = true;
                        s
                    }
                    o => Step::neutral(o.text(), "stack", 0b1111, true),
                });
            }
            let mut op = spec_from_steps(steps, la, lo, Any, None);
            op.elementary = false;
            let d = dom_for(&op, fwd, span, hk);
            let pts = build_pts(&pts, &d, &epochs);
            Case { ctx, op, fwd, pts, perm_seed, cuts, hist }
        })
        .boxed()
}

// ---- big sets -----------------------------------------------------------------------------

#[derive(Clone, Debug, Serialize, Deserialize)]
struct BigCase {
    ctx: u8,
    op: OpSpec,
    fwd: bool,
    n: u32,
    pseed: u64,
    epochs: Vec<F>,
    span: F,
    perm_seed: u64,
    cuts: Vec<u16>,
}

fn big_to_case(b: &BigCase, hk: bool) -> Case {
    let mut s = b.pseed;
    let raw: Vec<RawPt> = (0..b.n).map(|_| raw_from_seed(splitmix(&mut s))).collect();
    let d = dom_for(&b.op, b.fwd, b.span.0, hk);
    let pts = build_pts(&raw, &d, &b.epochs);
    Case { ctx: b.ctx, op: b.op.clone(), fwd: b.fwd, pts, perm_seed: b.perm_seed, cuts: b.cuts.clone(), hist: vec![(1, 0), (4, 1)] }
}

fn big_strategy(hk: bool, lo: u32, hi: u32) -> BS<BigCase> {
    let spec = prop_oneof![3 => elementary_spec(hk, Focus::All), 1 => elementary_spec(hk, Focus::Helmert), 1 => elementary_spec(hk, Focus::Grid), 3 => pipeline_spec(hk, 0b1111, true, 6)];
    (spec, 0u8..3, prop::bool::weighted(0.7), lo..=hi, any::<u64>(), epoch_pool(), spans(), any::<u64>(), prop::collection::vec(any::<u16>(), 1..=6))
        .prop_map(|(op, ctx, fwd, n, pseed, epochs, span, perm_seed, cuts)| BigCase { ctx, op, fwd, n, pseed, epochs, span: F(span), perm_seed: perm_seed | 2, cuts })
        .boxed()
}

// ---- confusable siblings on one thread ---------------------------------------------------------
//
// "The result computed for a coordinate tuple depends only on the operator and on that tuple ...
// repeated any number of times on fresh copies (operators are immutable after creation)" for
// histories that contain applications (and instantiations) of OTHER operators between two
// applications of the operator under test. The other operators are chosen to be confusable with
// it: the same definition on an ellipsoid sharing rf (or a) with its ellipsoid, the same definition
// with one numeric parameter changed, with `inv` toggled, an identical twin, another operator kind
// on the same / a related ellipsoid, and a pipeline made of the operator and a sibling.
// Reference: every member of such a family applied ALONE, in a context of its own, on a freshly
// spawned thread (anything remembered per thread, per process or per context is empty or filled by
// the operator itself there). On the test thread (a worker thread with an arbitrary history of
// earlier cases) the members are instantiated and applied in every order of pairs; every single
// result must equal the member's own reference bit for bit, and so must the success count.

/// operators that take an ellipsoid
const ELLPS_OPS: [&str; 19] = [
    "tmerc", "btmerc", "utm", "butm", "merc", "webmerc", "lcc", "laea", "omerc", "somerc", "cart", "molodensky", "permtide", "latitude", "curvature", "gravity", "geodesic", "deflection", "deformation",
];

/// operator kinds that plausibly share helper code: 0 transverse mercator / meridian arc, 1 conformal
/// latitude, 2 authalic, 3 any auxiliary latitude (wild card), 4 ellipsoid geometry
fn helper_group(name: &str) -> u8 {
    match name {
        "tmerc" | "btmerc" | "utm" | "butm" | "deflection" => 0,
        "merc" | "webmerc" | "lcc" | "somerc" | "omerc" => 1,
        "laea" => 2,
        "latitude" => 3,
        "cart" | "molodensky" | "deformation" | "geodesic" | "curvature" | "gravity" | "permtide" => 4,
        _ => 9,
    }
}

/// one line of the library's built-in ellipsoid table
#[derive(Clone, Debug)]
struct Ell {
    name: String,
    a_txt: String,
    rf_txt: String,
    a: f64,
    rf: f64,
}

/// an ellipsoid as spelled in a definition: a built-in name or "a,rf"
#[derive(Clone, Debug)]
struct Es {
    text: String,
    a_txt: String,
    rf_txt: String,
    a: f64,
    rf: f64,
}

fn ell_table() -> Vec<Ell> {
    geodesy::verif_hooks::ellipsoid_table()
        .into_iter()
        .filter_map(|(name, a, _, rf, _)| Some(Ell { name: name.to_string(), a_txt: a.trim().to_string(), rf_txt: rf.trim().to_string(), a: a.trim().parse().ok()?, rf: rf.trim().parse().ok()? }))
        .collect()
}

fn spelled(e: &Ell, as_pair: bool) -> Es {
    // "a,0" would mean an infinite flattening: spheres only by name
    let text = if as_pair && e.rf != 0.0 { format!("{},{}", e.a_txt, e.rf_txt) } else { e.name.clone() };
    Es { text, a_txt: e.a_txt.clone(), rf_txt: e.rf_txt.clone(), a: e.a, rf: e.rf }
}

fn ell_relation(b: &Es, s: &Es) -> &'static str {
    match (b.a.to_bits() == s.a.to_bits(), b.rf.to_bits() == s.rf.to_bits()) {
        (true, true) => "same-ellipsoid",
        (false, true) => "same-rf-other-a",
        (true, false) => "same-a-other-rf",
        _ => "unrelated-ellipsoid",
    }
}

/// A sibling of ellipsoid `b`. rel: 0 same rf / other a from the table, 1 same rf / other a spelled
/// "a',rf", 2 same a / other rf from the table, 3 same a / other rf spelled "a,rf'", 4 the same
/// ellipsoid spelled differently (or an alias in the table), 5 any ellipsoid of the table
fn sibling_ell(tab: &[Ell], b: &Es, rel: u8, k: u16, as_pair: bool) -> Es {
    let same = |x: f64, y: f64| x.to_bits() == y.to_bits();
    match rel {
        0 | 1 => {
            let c: Vec<&Ell> = tab.iter().filter(|e| same(e.rf, b.rf) && !same(e.a, b.a)).collect();
            if (rel == 0 || b.rf == 0.0) && !c.is_empty() {
                return spelled(c[pick(k, c.len())], as_pair);
            }
            if b.rf == 0.0 {
                return sibling_ell(tab, b, 5, k, as_pair);
            }
            let opts = [b.a + 1.0, b.a * 1.25, b.a * 0.75, if b.a == 6378137.0 { 6378388.0 } else { 6378137.0 }, if b.a == 1.0 { 6370997.0 } else { 1.0 }, 2.0 * b.a];
            let a = opts[pick(k, opts.len())];
            Es { text: format!("{a},{}", b.rf_txt), a_txt: format!("{a}"), rf_txt: b.rf_txt.clone(), a, rf: b.rf }
        }
        2 | 3 => {
            let c: Vec<&Ell> = tab.iter().filter(|e| same(e.a, b.a) && !same(e.rf, b.rf)).collect();
            if rel == 2 && !c.is_empty() {
                return spelled(c[pick(k, c.len())], as_pair);
            }
            let opts = if b.rf == 0.0 { [298.3, 297.0, 300.8017, 150.0, 299.1528128] } else { [b.rf + 0.001, b.rf + 1.0, if b.rf == 297.0 { 298.3 } else { 297.0 }, if b.rf == 300.8017 { 299.0 } else { 300.8017 }, 150.0] };
            let rf = opts[pick(k, opts.len())];
            Es { text: format!("{},{rf}", b.a_txt), a_txt: b.a_txt.clone(), rf_txt: format!("{rf}"), a: b.a, rf }
        }
        4 => {
            let alias: Vec<&Ell> = tab.iter().filter(|e| same(e.a, b.a) && same(e.rf, b.rf) && e.name != b.text).collect();
            if b.rf != 0.0 && (k % 2 == 0 || alias.is_empty()) && !b.text.contains(',') {
                return Es { text: format!("{},{}", b.a_txt, b.rf_txt), ..b.clone() };
            }
            if alias.is_empty() {
                return b.clone();
            }
            spelled(alias[pick(k, alias.len())], false)
        }
        _ => spelled(&tab[pick(k, tab.len())], as_pair),
    }
}

/// (definition without a trailing `inv`, was there one?)
fn strip_inv(text: &str) -> (String, bool) {
    match text.strip_suffix(" inv") {
        Some(t) => (t.to_string(), true),
        None => (text.to_string(), false),
    }
}

/// the same step with `inv` toggled
fn flip(s: &Step) -> Step {
    let mut s = s.clone();
    let (body, inv) = strip_inv(&s.text);
    s.text = if inv { body } else { format!("{body} inv") };
    std::mem::swap(&mut s.inn, &mut s.out);
    s
}

/// the same step on another ellipsoid (molodensky with two ellipsoids: the first one is replaced)
fn set_ellps(s: &Step, e: &Es) -> Step {
    let mut s = s.clone();
    if !ELLPS_OPS.contains(&s.name.as_str()) {
        return s;
    }
    let (body, inv) = strip_inv(&s.text);
    let two = body.split_whitespace().any(|t| t.starts_with("ellps_0="));
    let mut toks: Vec<String> = vec![];
    for t in body.split_whitespace() {
        if two && t.starts_with("ellps_0=") {
            toks.push(format!("ellps_0={}", e.text));
        } else if !t.starts_with("ellps=") {
            toks.push(t.to_string());
        }
    }
    if !two {
        toks.push(format!("ellps={}", e.text));
    }
    s.text = toks.join(" ");
    if inv {
        s.text.push_str(" inv");
    }
    s
}

/// the same step with one element of one numeric parameter changed; None if it has none
fn mutate_numeric(s: &Step, which: u16, how: u8) -> Option<(Step, String)> {
    let (body, inv) = strip_inv(&s.text);
    let mut toks: Vec<String> = body.split_whitespace().map(|t| t.to_string()).collect();
    let cand: Vec<usize> = (1..toks.len())
        .filter(|&i| match toks[i].split_once('=') {
            Some((k, v)) => !k.starts_with("ellps") && k != "grids" && !v.is_empty() && v.split(',').all(|x| x.parse::<f64>().map(|x| x.is_finite()).unwrap_or(false)),
            None => false,
        })
        .collect();
    if cand.is_empty() {
        return None;
    }
    let i = cand[pick(which, cand.len())];
    let (k, v) = toks[i].split_once('=').map(|(k, v)| (k.to_string(), v.to_string()))?;
    let mut parts: Vec<String> = v.split(',').map(|x| x.to_string()).collect();
    let j = (which as usize / 7) % parts.len();
    let x: f64 = parts[j].parse().ok()?;
    let y = match how % 4 {
        0 => x + 1.0,
        1 => x - 1.0,
        2 => x + 0.25,
        _ => {
            if x == 0.0 {
                0.001
            } else {
                x * 1.001
            }
        }
    };
    parts[j] = format!("{y}");
    toks[i] = format!("{k}={}", parts.join(","));
    let mut s = s.clone();
    s.text = toks.join(" ");
    if inv {
        s.text.push_str(" inv");
    }
    Some((s, k))
}

/// the catalogue restricted to what accepts a start kind of its own (no stack blocks)
fn param_steps(la: i32, lo: i32, hk: bool) -> Vec<(u32, BS<Step>)> {
    let mut v = georad_steps(la, lo, 0b1111, false);
    v.extend(geodeg_steps(0b1111, true, false));
    v.extend(cart_steps(hk, false, 0b1111, true));
    let s = (any::<bool>(), ellps())
        .prop_map(|(rev, e)| Step::new(format!("geodesic{}{e}", if rev { " reversible" } else { "" }), "geodesic", GeodFwd, GeodInv, 0b1111, true))
        .boxed();
    v.push((4, s));
    v
}

#[derive(Clone, Debug, Serialize, Deserialize)]
struct Member {
    op: OpSpec,
    fwd: bool,
    pts: Vec<P4>,
    rel: String, // relation to the operator under test (member 0)
}

#[derive(Clone, Debug, Serialize, Deserialize)]
struct SibCase {
    ctx: u8,
    shared_ctx: bool, // all members in one context, or one context each
    inst_rev: bool,   // instantiate the siblings before the operator under test
    members: Vec<Member>,
    extra: Vec<(u8, u16)>,
}

struct PtSrc<'a> {
    raw: &'a [RawPt],
    epochs: &'a [F],
    span: f64,
    hk: bool,
}

fn member_of(steps: Vec<Step>, la: i32, lo: i32, fwd: bool, src: &PtSrc, rel: String) -> Member {
    let start = if steps[0].neutral { GeoRad } else { steps[0].inn };
    let fwd = fwd || !steps.iter().all(|s| s.invertible);
    let mut spec = spec_from_steps(steps, la, lo, start, None);
    if spec.out_kind == Any && spec.in_kind != Any && spec.wmask == 0 {
        spec.out_kind = spec.in_kind;
    }
    let d = dom_for(&spec, fwd, src.span, src.hk);
    let pts = build_pts(src.raw, &d, src.epochs);
    Member { op: spec, fwd, pts, rel }
}

#[derive(Clone, Debug)]
struct Recipe {
    kind: u8,
    erel: u8,
    k: u16,
    how: u8,
    c1: Step,
    c2: Step,
    fwd: Option<bool>,
    as_pair: bool,
}

/// one sibling of the (un-inverted or inverted) step `t` on ellipsoid `b`
fn sibling_step(tab: &[Ell], t: &Step, b: &Es, r: &Recipe) -> (Step, String) {
    let has_ellps = ELLPS_OPS.contains(&t.name.as_str());
    let e = sibling_ell(tab, b, r.erel, r.k, r.as_pair);
    let erel = ell_relation(b, &e);
    let other = |on: &Es, label: &str| {
        let g = helper_group(&t.name);
        let fits = |c: &Step| helper_group(&c.name) == g || helper_group(&c.name) == 3 || g == 3;
        let c = if fits(&r.c1) || !fits(&r.c2) { &r.c1 } else { &r.c2 };
        let c = set_ellps(c, on);
        let rel = format!("other-op/{}", if ELLPS_OPS.contains(&c.name.as_str()) { label } else { "no-ellipsoid" });
        (c, rel)
    };
    match r.kind {
        0..=2 if has_ellps => (set_ellps(t, &e), format!("same-def/{erel}")),
        0..=4 => match mutate_numeric(t, r.k, r.how) {
            Some((s, _)) => (s, "same-def/one-numeric-parameter-changed".to_string()),
            None if has_ellps => (set_ellps(t, &e), format!("same-def/{erel}")),
            None => other(b, "same-ellipsoid"),
        },
        5 if t.invertible => (flip(t), "inv-toggled/same-ellipsoid".to_string()),
        6 if t.invertible && has_ellps => (flip(&set_ellps(t, &e)), format!("inv-toggled/{erel}")),
        5..=7 => other(b, "same-ellipsoid"),
        8 => other(&e, erel),
        _ => (t.clone(), "identical-twin".to_string()),
    }
}

fn sib_strategy(hk: bool) -> BS<SibCase> {
    let tab = std::sync::Arc::new(ell_table());
    // table members that have a partner with the same rf or the same a
    let grouped: Vec<usize> = (0..tab.len()).filter(|&i| tab.iter().enumerate().any(|(j, e)| j != i && (e.rf.to_bits() == tab[i].rf.to_bits() || e.a.to_bits() == tab[i].a.to_bits()))).collect();
    let n = tab.len();
    region()
        .prop_flat_map(move |(la, lo)| {
            let tab = tab.clone();
            let ops = union(param_steps(la, lo, hk));
            let recipe = (0u8..10, 0u8..6, any::<u16>(), 0u8..4, ops.clone(), ops.clone(), prop::option::weighted(0.35, any::<bool>()), prop::bool::weighted(0.2))
                .prop_map(|(kind, erel, k, how, c1, c2, fwd, as_pair)| Recipe { kind, erel, k, how, c1, c2, fwd, as_pair });
            (
                (ops, prop::bool::weighted(0.3), prop::bool::weighted(0.7)),
                (prop_oneof![2 => sel(&grouped), 1 => 0..n], prop::bool::weighted(0.2)),
                prop::collection::vec(recipe, 1..=3),
                prop::bool::weighted(0.3),
                (prop::collection::vec(raw_pt(), 1..=8), epoch_pool(), spans()),
                (0u8..3, any::<bool>(), any::<bool>()),
                prop::collection::vec((0u8..5, any::<u16>()), 0..=4),
            )
                .prop_map(move |((t0, tinv, tfwd), (bi, bpair), recipes, with_pipeline, (raw, epochs, span), (ctx, shared_ctx, inst_rev), extra)| {
                    let src = PtSrc { raw: &raw, epochs: &epochs, span, hk };
                    let b = spelled(&tab[bi], bpair);
                    // an operator without any parameter (adapt, dm, dms) is of little use as the one under test
                    let with_parameters = |s: &Step| ELLPS_OPS.contains(&s.name.as_str()) || s.name == "helmert";
                    let t0 = if !with_parameters(&t0) && with_parameters(&recipes[0].c1) { recipes[0].c1.clone() } else { t0 };
                    let mut t = set_ellps(&t0, &b);
                    if tinv && t.invertible && !t.text.ends_with(" inv") {
                        t = flip(&t);
                    }
                    let mut members = vec![member_of(vec![t.clone()], la, lo, tfwd, &src, "under-test".to_string())];
                    let tfwd = members[0].fwd;
                    let mut pipe: Option<Member> = None;
                    for r in &recipes {
                        let (s, rel) = sibling_step(&tab, &t, &b, r);
                        if with_pipeline && pipe.is_none() && !t.neutral && !s.neutral && t.invertible && s.invertible && s.inn == t.inn && s.out == t.out {
                            // there and back through two confusable steps inside ONE operator
                            pipe = Some(member_of(vec![t.clone(), flip(&s)], la, lo, true, &src, format!("pipeline-with/{rel}")));
                        }
                        members.push(member_of(vec![s], la, lo, r.fwd.unwrap_or(tfwd), &src, rel));
                    }
                    members.extend(pipe);
                    SibCase { ctx, shared_ctx, inst_rev, members, extra }
                })
        })
        .boxed()
}

enum AnyCtx {
    M(Minimal),
    P(Plain),
    G(GridCtx),
}

#[derive(Clone)]
enum Outcome {
    Done(usize, Vec<Coor4D>),
    Failed(String),
}

impl AnyCtx {
    /// a context that can serve the grids of all `specs`
    fn serving(specs: &[&OpSpec], kind: u8) -> Result<AnyCtx, String> {
        if specs.iter().all(|s| s.grids.is_empty()) {
            return Ok(match kind % 3 {
                0 => AnyCtx::M(Minimal::new()),
                1 => AnyCtx::P(Plain::new()),
                _ => AnyCtx::G(GridCtx::new()),
            });
        }
        let mut ctx = GridCtx::new();
        for spec in specs {
            for g in &spec.grids {
                let bytes = g.bytes(spec.la, spec.lo)?;
                ctx.add_grid_bytes(&g.name, &bytes).map_err(|e| format!("grid {} rejected: {e:?}", g.name))?;
            }
        }
        Ok(AnyCtx::G(ctx))
    }
    fn inst(&mut self, spec: &OpSpec) -> Result<Option<OpHandle>, Failure> {
        match self {
            AnyCtx::M(c) => instantiate(c, spec),
            AnyCtx::P(c) => instantiate(c, spec),
            AnyCtx::G(c) => instantiate(c, spec),
        }
    }
    /// an error returned by apply is an outcome here (it must not depend on the history either)
    fn run(&self, h: OpHandle, fwd: bool, input: &[Coor4D], spec: &OpSpec, what: &str) -> Result<Outcome, Failure> {
        let mut data = input.to_vec();
        let r = match self {
            AnyCtx::M(c) => try_apply(c, h, dir_of(fwd), &mut data),
            AnyCtx::P(c) => try_apply(c, h, dir_of(fwd), &mut data),
            AnyCtx::G(c) => try_apply(c, h, dir_of(fwd), &mut data),
        };
        match r {
            Err(p) => vfail!(format!("panic-apply@{}", p.sig()), "applying '{}' ({}) [{what}] panics: {} at {}:{}", spec.def, dirname(fwd), p.msg, p.file, p.line),
            Ok(Err(e)) => Ok(Outcome::Failed(format!("{e:?}"))),
            Ok(Ok(c)) => Ok(Outcome::Done(c, data)),
        }
    }
}

/// the member applied alone, in a context of its own, on a freshly spawned thread.
/// Ok(None): definition (or grid) rejected
fn alone_on_a_fresh_thread(m: &Member, ctxkind: u8) -> Result<Option<Outcome>, Failure> {
    let joined = std::thread::scope(|s| {
        s.spawn(|| -> Result<Option<Outcome>, Failure> {
            let Ok(mut ctx) = AnyCtx::serving(&[&m.op], ctxkind) else { return Ok(None) };
            let Some(h) = ctx.inst(&m.op)? else { return Ok(None) };
            Ok(Some(ctx.run(h, m.fwd, &c4s(&m.pts), &m.op, "alone on a fresh thread")?))
        })
        .join()
    });
    match joined {
        Ok(r) => r,
        Err(_) => vfail!("harness-thread", "the reference thread for '{}' died", m.op.def),
    }
}

/// Everything that happens on the one thread under test (freshly spawned as well, so that the
/// verdict is a function of the case alone and not of what the worker thread did for earlier cases).
/// Returns the number of applications compared with their reference.
fn history_on_one_thread(case: &SibCase, members: &[&Member], refs: &[Outcome]) -> Result<u64, Failure> {
    let k = members.len();
    // the same operators on ONE thread: one context for all, or one each
    let mut ctxs: Vec<AnyCtx> = vec![];
    if case.shared_ctx {
        let specs: Vec<&OpSpec> = members.iter().map(|m| &m.op).collect();
        match AnyCtx::serving(&specs, case.ctx) {
            Ok(c) => ctxs.push(c),
            Err(_) => return Ok(0),
        }
    } else {
        for (i, m) in members.iter().enumerate() {
            match AnyCtx::serving(&[&m.op], case.ctx.wrapping_add(2 * i as u8)) {
                Ok(c) => ctxs.push(c),
                Err(_) => return Ok(0),
            }
        }
    }
    let ci = |i: usize| if case.shared_ctx { 0 } else { i };
    let mut handles: Vec<Option<OpHandle>> = vec![None; k];
    let order: Vec<usize> = if case.inst_rev { (0..k).rev().collect() } else { (0..k).collect() };
    for &i in &order {
        handles[i] = ctxs[ci(i)].inst(&members[i].op)?;
        vensure!(handles[i].is_some(), format!("sibling-history-instantiation@{}", members[i].op.sig), "'{}' is accepted alone on a fresh thread but rejected after other operators were instantiated on this thread", members[i].op.def);
    }
    let handles: Vec<OpHandle> = handles.into_iter().flatten().collect();
    let inputs: Vec<Vec<Coor4D>> = members.iter().map(|m| c4s(&m.pts)).collect();

    let mut prev = "nothing (first application on this thread)".to_string();
    let mut applications = 0u64;
    let mut check = |i: usize, h: OpHandle, ctx: &AnyCtx, prev: &mut String| -> CaseResult {
        let m = members[i];
        let got = ctx.run(h, m.fwd, &inputs[i], &m.op, "after other operators on the same thread")?;
        applications += 1;
        let what = describe(&m.op, m.fwd);
        let key = format!("sibling-history@{}", m.op.sig);
        match (&refs[i], &got) {
            (Outcome::Done(c0, o0), Outcome::Done(c1, o1)) => {
                if let Some(j) = first_bits_diff(o1, o0) {
                    vfail!(
                        key,
                        "{what}: the result depends on what was applied on the same thread before\n immediately before: {prev}\n tuple {j} of {}\n input {}\n alone on a freshly spawned thread {}\n here {}\n (role of this operator in the case: {})",
                        o0.len(),
                        fmt_c4(&inputs[i][j]),
                        fmt_c4(&o0[j]),
                        fmt_c4(&o1[j]),
                        m.rel
                    );
                }
                vensure!(c0 == c1, key, "{what}: success count {c1} after [{prev}], {c0} alone on a freshly spawned thread");
            }
            (Outcome::Failed(e0), Outcome::Failed(e1)) => {
                vensure!(e0 == e1, key, "{what}: apply fails with {e1} after [{prev}], with {e0} alone on a freshly spawned thread");
            }
            (Outcome::Done(..), Outcome::Failed(e)) => vfail!(key, "{what}: apply fails with {e} after [{prev}] but succeeds alone on a freshly spawned thread"),
            (Outcome::Failed(e), Outcome::Done(..)) => vfail!(key, "{what}: apply succeeds after [{prev}] but fails with {e} alone on a freshly spawned thread"),
        }
        *prev = format!("'{}' ({}) [{}]", m.op.def, dirname(m.fwd), m.rel);
        Ok(())
    };

    // 3. every ordered pair: i, then j directly after it
    for i in 0..k {
        for j in 0..k {
            if i != j {
                check(i, handles[i], &ctxs[ci(i)], &mut prev)?;
                check(j, handles[j], &ctxs[ci(j)], &mut prev)?;
            }
        }
    }
    // 4. other things a sibling may do between two applications of the operator under test
    for (kind, a) in &case.extra {
        let x = 1 + pick(*a, k - 1);
        let m = members[x];
        match kind {
            0 => {
                // the sibling in the opposite direction, on its own input (whatever comes out)
                let _ = ctxs[ci(x)].run(handles[x], !m.fwd, &inputs[x], &m.op, "history: sibling in the opposite direction")?;
                prev = format!("'{}' ({}) [{}]", m.op.def, dirname(!m.fwd), m.rel);
            }
            1 => {
                // a second instantiation of the sibling (construction may consult the same helpers)
                if let Some(h2) = ctxs[ci(x)].inst(&m.op)? {
                    prev = format!("instantiation of '{}'", m.op.def);
                    check(0, handles[0], &ctxs[ci(0)], &mut prev)?;
                    check(x, h2, &ctxs[ci(x)], &mut prev)?;
                }
            }
            2 => {
                let one = &inputs[x][..1.min(inputs[x].len())];
                let _ = ctxs[ci(x)].run(handles[x], m.fwd, one, &m.op, "history: sibling on one tuple")?;
                prev = format!("'{}' ({}) on its first tuple only [{}]", m.op.def, dirname(m.fwd), m.rel);
            }
            3 => {
                // the operator under test on the sibling's tuples, then on its own again
                let _ = ctxs[ci(0)].run(handles[0], members[0].fwd, &inputs[x], &members[0].op, "history: the sibling's tuples")?;
                check(x, handles[x], &ctxs[ci(x)], &mut prev)?;
            }
            _ => {
                // the sibling in a brand new context on this thread
                if let Ok(mut c) = AnyCtx::serving(&[&m.op], case.ctx.wrapping_add(*a as u8)) {
                    if let Some(h2) = c.inst(&m.op)? {
                        check(x, h2, &c, &mut prev)?;
                    }
                }
            }
        }
        check(0, handles[0], &ctxs[ci(0)], &mut prev)?;
    }

    drop(check);
    Ok(applications)
}

fn check_siblings(case: &SibCase, rec: &mut Rec) -> CaseResult {
    // 1. references
    let mut members: Vec<&Member> = vec![];
    let mut refs: Vec<Outcome> = vec![];
    for (i, m) in case.members.iter().enumerate() {
        rec.count("reference_threads_spawned", 1);
        match alone_on_a_fresh_thread(m, case.ctx.wrapping_add(i as u8))? {
            Some(o) => {
                members.push(m);
                refs.push(o);
            }
            None => {
                rec.count("rejected_definition", 1);
                if i == 0 {
                    rec.class("rejected-definition");
                    return Ok(());
                }
            }
        }
    }
    let k = members.len();
    if k < 2 {
        rec.class("no-sibling-left");
        return Ok(());
    }
    // 2. all of them on one (other) freshly spawned thread
    rec.count("history_threads_spawned", 1);
    let joined = std::thread::scope(|s| s.spawn(|| history_on_one_thread(case, &members, &refs)).join());
    let applications = match joined {
        Ok(r) => r?,
        Err(_) => vfail!("harness-thread", "the history thread for '{}' died", members[0].op.def),
    };
    let inputs: Vec<Vec<Coor4D>> = members.iter().map(|m| c4s(&m.pts)).collect();

    // ---- bookkeeping
    let t = members[0];
    rec.class(&format!("op:{}", if t.op.elementary { t.op.sig.clone() } else { "pipeline".into() }));
    rec.class(if t.fwd { "dir:fwd" } else { "dir:inv" });
    rec.class(if t.op.def.ends_with(" inv") { "under-test:inv-definition" } else { "under-test:plain-definition" });
    rec.class(if case.shared_ctx { "ctx:one-for-all" } else { "ctx:one-per-operator" });
    rec.class(if case.inst_rev { "instantiated:siblings-first" } else { "instantiated:under-test-first" });
    let mut confusable = false;
    for (i, m) in members.iter().enumerate().skip(1) {
        rec.class(&format!("sibling:{}", m.rel));
        rec.class(&format!("sibling-op:{}", if m.op.elementary { m.op.sig.clone() } else { "pipeline".into() }));
        // a mix-up would be visible: same tuples, different finite results
        if let (Outcome::Done(_, o0), Outcome::Done(_, oi)) = (&refs[0], &refs[i]) {
            if m.fwd == t.fwd && inputs[i].len() == inputs[0].len() && first_bits_diff(&inputs[i], &inputs[0]).is_none() && o0.iter().zip(oi.iter()).any(|(p, q)| p.0.iter().chain(q.0.iter()).all(|v| v.is_finite()) && !c4_bits_eq(p, q)) {
                confusable = true;
            }
        }
    }
    if matches!(refs[0], Outcome::Failed(_)) {
        rec.class("outcome:apply-error");
    }
    rec.count("applications_compared_with_the_fresh_thread_reference", applications);
    rec.count("tuples", inputs.iter().map(|v| v.len() as u64).sum());
    if confusable {
        rec.class("a-sibling-gives-other-finite-results-for-the-same-tuples");
        let fp: Vec<u64> = inputs[0].iter().take(2).flat_map(|c| c.0.iter().map(|v| v.to_bits()).collect::<Vec<_>>()).collect();
        let defs: Vec<&str> = members.iter().map(|m| m.op.def.as_str()).collect();
        rec.nontrivial(&(defs, t.fwd, fp));
    } else {
        rec.class("trivial");
    }
    Ok(())
}

/// (base, sibling) pairs built systematically from the built-in table: every ordered pair within a
/// group of equal rf and within a group of equal a (by name), and for every entry a sibling spelled
/// "a+1,rf", one spelled "a,rf+0.001" and the entry itself spelled "a,rf"
fn table_pairs(tab: &[Ell]) -> Vec<(Es, Es)> {
    let mut v = vec![];
    for (i, e) in tab.iter().enumerate() {
        for (j, f) in tab.iter().enumerate() {
            if i != j && (e.rf.to_bits() == f.rf.to_bits() || e.a.to_bits() == f.a.to_bits()) {
                v.push((spelled(e, false), spelled(f, false)));
            }
        }
        let b = spelled(e, false);
        for rel in [1u8, 3, 4] {
            let s = sibling_ell(tab, &b, rel, 0, false);
            if s.text != b.text {
                v.push((b.clone(), s));
            }
        }
    }
    v
}

/// representative definitions of every operator kind (and flag combination) that takes an ellipsoid,
/// drawn from the catalogue with fixed seeds: (la, lo, step)
fn sibling_templates() -> Vec<(i32, i32, Step)> {
    let mut out = vec![];
    for (r, (la, lo)) in [(55, 12), (-33, 151)].into_iter().enumerate() {
        let strat = union(param_steps(la, lo, false));
        let mut seen: BTreeSet<String> = BTreeSet::new();
        for i in 0..1500u64 {
            let s = vcore::engine::sample_one(&strat, i + 5000 * r as u64);
            // the second region only for operators whose parameters depend on the region
            if !ELLPS_OPS.contains(&s.name.as_str()) || (r > 0 && helper_group(&s.name) > 2) {
                continue;
            }
            let (body, _) = strip_inv(&s.text);
            // kind + flags + which optional parameters are present (+ the tide systems)
            let mut key = s.name.clone();
            for t in body.split_whitespace().skip(1) {
                match t.split_once('=') {
                    None if t == "zero-height" => {}
                    None => key += &format!(" {t}"),
                    Some((k, v)) if k == "from" => key += &format!(" {k}={v}"),
                    Some((k, _)) if ["ellps_0", "lat_ts", "gamma_c", "dt"].contains(&k) => key += &format!(" {k}"),
                    _ => {}
                }
            }
            if seen.insert(key) {
                let (mut s, inv) = (s.clone(), s.text.ends_with(" inv"));
                if inv {
                    s = flip(&s);
                }
                out.push((la, lo, s));
            }
        }
    }
    out
}

fn table_case(templates: &[(i32, i32, Step)], pairs: &[(Es, Es)], i: usize) -> SibCase {
    let d = i % 2;
    let p = (i / 2) % pairs.len();
    let t = (i / 2 / pairs.len()) % templates.len();
    let (la, lo, step) = &templates[t];
    let (b, s) = &pairs[p];
    let mut seed = 0xC02 ^ ((t as u64) << 8);
    let raw: Vec<RawPt> = (0..5)
        .map(|_| {
            let mut r = raw_from_seed(splitmix(&mut seed));
            r.cls %= 80; // valid, duplicate, out-of-domain
            r
        })
        .collect();
    let epochs = [F(2000.0), F(2012.5)];
    let src = PtSrc { raw: &raw, epochs: &epochs, span: 4.0, hk: false };
    let fwd = d == 0;
    let under_test = set_ellps(step, b);
    let sibling = set_ellps(step, s);
    let rel = format!("same-def/{}", ell_relation(b, s));
    let mut members = vec![member_of(vec![under_test.clone()], *la, *lo, fwd, &src, "under-test".into()), member_of(vec![sibling.clone()], *la, *lo, fwd, &src, rel.clone())];
    if !fwd && under_test.invertible && !under_test.neutral {
        members.push(member_of(vec![under_test, flip(&sibling)], *la, *lo, true, &src, format!("pipeline-with/{rel}")));
    }
    SibCase { ctx: (i % 3) as u8, shared_ctx: (i / 3) % 2 == 0, inst_rev: (i / 6) % 2 == 0, members, extra: vec![(1, 0), (4, 0)] }
}

// ---- main -------------------------------------------------------------------------------------

/// Is the helmert finding registered as "known" (not yet repaired)? Then its class is excluded
/// by construction everywhere except in the dedicated section.
fn helmert_known(root: &std::path::Path) -> bool {
    let mut known = false;
    for p in [root.join("known_findings.json"), root.join("known_findings.d").join("C02.json")] {
        let Ok(t) = std::fs::read_to_string(&p) else { continue };
        let Ok(v) = serde_json::from_str::<serde_json::Value>(&t) else { continue };
        if let Some(l) = v.get("findings").and_then(|l| l.as_array()) {
            for e in l {
                if e.get("property").and_then(|s| s.as_str()) == Some("C02") && e.get("key").and_then(|s| s.as_str()) == Some(HELMERT_KEY) && e.get("status").and_then(|s| s.as_str()) == Some("known") {
                    known = true;
                }
            }
        }
    }
    known
}

fn main() {
    let mut run = Run::init("C02");
    let hk = helmert_known(&run.root);
    HK.store(hk, std::sync::atomic::Ordering::Relaxed);
    run.note("helmert_finding_registered_as_known", serde_json::json!(hk));
    run.assume("all comparisons are on f64 bit patterns with every NaN identified with every other NaN");
    run.assume("success counts: additivity over parts is asserted for elementary operators; for pipelines (count = minimum over steps) only count(whole) >= sum(parts), and invariance under permutation");
    run.assume("containers: a pipeline is compared through a lower-dimensional container only if none of its steps can write (or NaN-stomp) a dimension the container does not carry; Coor32 containers only for single operators, comparing with the Vec<Coor4D> result rounded to f32 (exact: same f64 computation, then the same rounding)");
    run.assume("adapters (T, t) and (T, h, t) supply the fixed values on every read, so only the dimensions below the supplied ones are compared");
    run.assume("grid operators use generated Gravsoft grids and generated NTv2 files with nested sub-grids (plus the shipped 5458_with_subgrid.gsb), all served by the harness context GridCtx, which shares one decoded grid object between all handles of a context as Plain does");
    run.assume("sibling sections: the reference for 'depends only on the operator and the tuple' is the operator applied alone, in a context of its own, on a freshly spawned thread; the history under test runs on one other freshly spawned thread per case, so the verdict is a function of the case alone; an error returned by apply is compared as an outcome (same error alone and after the history), a panic is reported as in the other sections");
    if hk {
        run.assume("the registered helmert finding (parameters carried over between tuples of differing epochs) is excluded by construction outside section helmert-epochs: bare dynamic helmert operators get sets with one common epoch, dynamic helmert steps inside pipelines get a pinned t_obs");
    }

    // which built-in operators does the catalogue never produce?
    {
        let mut names: BTreeSet<String> = BTreeSet::new();
        for i in 0..4000u64 {
            let s = vcore::engine::sample_one(&elementary_spec(false, Focus::All), i);
            names.insert(s.def.split_whitespace().next().unwrap_or("").to_string());
        }
        let uncovered: Vec<&str> = geodesy::verif_hooks::builtin_operator_names().into_iter().filter(|n| !names.contains(*n) && *n != "pipeline").collect();
        run.note("uncovered_operators", serde_json::json!(uncovered));
    }

    let maxn = if run.is_thorough() { 4000 } else { 2000 };

    let n = run.scale(16_000, 200_000);
    run.section(
        "helmert-epochs",
        "bare helmert operators with every combination of rate kinds (translation, rotation, scale), both conventions, exact/small-angle, with/without t_obs x sets with mixed epochs incl. NaN/inf epochs x permutation x chunking x history; non-trivial = >= 2 tuples, >= 2 distinct epochs on a time-dependent operator (or a failing member next to a valid one, or a non-identity permutation) and at least one finite result that differs from its input",
        n,
        move || case_strategy(elementary_spec(false, Focus::Helmert), 60, false),
        |c: &Case, rec: &mut Rec| check(c, rec, true),
    );

    let n = run.scale(11_000, 200_000);
    run.section(
        "elementary",
        "one built-in operator (whole catalogue, valid parameters, optional inv) x direction x heterogeneous set of 0..2000 tuples (valid, duplicates, out-of-domain, partial/all NaN, arbitrary f64 classes, special epochs) x permutation x chunking (empty chunks included) x history of other applications x fresh context; whole = singletons = permuted = chunked = repeated bit for bit, count(whole) = sum over parts",
        n,
        move || case_strategy(elementary_spec(hk, Focus::All), maxn, hk),
        |c: &Case, rec: &mut Rec| check(c, rec, false),
    );

    let n = run.scale(6_000, 75_000);
    run.section(
        "grid-operators",
        "gridshift (2-band datum, 1-band geoid), deformation (3-band, t_epoch or dt, raw) and deflection on 1..3 generated overlapping Gravsoft grids with optional-missing and @null entries; points inside, in the half-cell margin and outside; mixed epochs",
        n,
        move || case_strategy(elementary_spec(hk, Focus::Grid), 600, hk),
        |c: &Case, rec: &mut Rec| check(c, rec, false),
    );

    let n = run.scale(8_000, 100_000);
    run.section(
        "ntv2-subgrids",
        "gridshift on NTv2 files with nested sub-grids (generated: root + 1..2 children of 1/2 or 1/4 spacing, optionally a grandchild, node values of their own per sub-grid, file order of sub-grids varied; and the shipped 5458_with_subgrid.gsb), optionally followed by a Gravsoft grid and @null; sets mix, in random order and with repeats, tuples inside a child, in the parent only, exactly on each sub-grid's corners and four edges (limits computed as the library's header parser computes them), a hair (0.5e-6 / 3e-6 cells) either side of the upper limits, and outside; both directions; singletons are applied in reverse order so that a look-up hint surviving an apply call meets another predecessor",
        n,
        move || case_strategy(elementary_spec(hk, Focus::Ntv2), 60, hk),
        |c: &Case, rec: &mut Rec| check(c, rec, false),
    );

    let n = run.scale(7_000, 120_000);
    run.section(
        "pipelines",
        "type-correct pipelines of 2..6 steps (geo:in, cart, helmert, deformation, gridshift, molodensky, projections and their inverses, adapt, axisswap, unitconvert, latitude, depth-balanced stack blocks, user macros) x direction x heterogeneous sets; same relations; count(whole) >= sum(parts)",
        n,
        move || case_strategy(pipeline_spec(hk, 0b1111, true, 6), maxn, hk),
        |c: &Case, rec: &mut Rec| check(c, rec, false),
    );

    let n = run.scale(8_000, 100_000);
    let maxlen = if run.is_thorough() { 20 } else { 12 };
    run.section(
        "stack-programs",
        "depth-aware random stack programs (push/pop/flip/roll/unroll/swap/legacy push,pop; 3% unconstrained so underflow occurs) interleaved with value-changing steps (helmert incl. time dependent, addone, adapt, axisswap, unitconvert, cart), arranged for the direction applied; the per-application stack is column-wise per tuple, so permutation and chunking must commute with it",
        n,
        move || stack_case(hk, maxlen, 600),
        |c: &Case, rec: &mut Rec| check(c, rec, false),
    );

    let n = run.scale(6_000, 60_000);
    run.section(
        "containers",
        "every container kind (Vec / slice / array of Coor4D, Coor3D, Coor2D, Coor32, each alone, with (T, t) and with (T, h, t): 36 kinds, all run for every case) x single operators (whole catalogue) and pipelines restricted to steps that write only carried dimensions; reference = the tuples the container exposes, in a Vec<Coor4D>; non-trivial = a carried element changed to a finite value",
        n,
        move || ccase_strategy(hk),
        check_containers,
    );

    let n = run.scale(4_000, 150_000);
    run.section(
        "sibling-history",
        "families of 2..5 confusable operators: the operator under test (whole catalogue of operators with an ellipsoid or numeric parameters, plain or `inv` definition, Fwd or Inv, ellipsoid drawn from the built-in table by name or as a,rf) + 1..3 siblings (same definition on an ellipsoid with the same rf and another a / the same a and another rf / the same ellipsoid spelled differently / an unrelated one, taken from the table groups or spelled a,rf; one numeric parameter changed; `inv` toggled; an identical twin; another operator kind, preferably one sharing helper code, on the same or a related ellipsoid) + optionally a pipeline of the operator and the inverted sibling; reference = each member applied alone in its own context on a freshly spawned thread; on the worker thread all are instantiated (either order; one context for all or one each) and applied in every ordered pair, then after sibling applications in the opposite direction, on one tuple, re-instantiations and fresh contexts; every application is compared bit for bit (and in its success count / error) with the member's reference; non-trivial = some sibling gives different finite results for the same tuples in the same direction",
        n,
        move || sib_strategy(hk),
        check_siblings,
    );

    {
        let tab = ell_table();
        let pairs = table_pairs(&tab);
        let templates = sibling_templates();
        run.note("sibling_table_pairs", serde_json::json!(pairs.len()));
        run.note("sibling_templates", serde_json::json!(templates.iter().map(|t| t.2.text.clone()).collect::<Vec<_>>()));
        let total = 2 * pairs.len() * templates.len();
        let rule = "every representative definition of the operators that take an ellipsoid (one per kind and flag combination, two regions, drawn from the catalogue with fixed seeds) x every ordered pair of built-in ellipsoids sharing rf or sharing a, plus for every built-in ellipsoid the siblings a+1,rf / a,rf+0.001 / the same one spelled a,rf x Fwd / Inv (Inv adds the pipeline 'op on E1 | op on E2 inv'); same oracle as sibling-history";
        run.enumerate("sibling-ellipsoid-table", rule, total, |i| table_case(&templates, &pairs, i), check_siblings);
    }

    let (nbig, lo, hi) = if run.is_thorough() { (run.scale(0, 96), 40_000u32, 100_000u32) } else { (run.scale(48, 0), 2_000u32, 6_000u32) };
    run.track_inflight(true);
    run.section(
        "big-sets",
        "sets of 2000..6000 (thorough 40000..100000) tuples generated from a seed inside the case; elementary operators, grid operators and pipelines; all singletons, a random permutation, up to 7 chunks, repetition",
        nbig,
        move || big_strategy(hk, lo, hi),
        move |b: &BigCase, rec: &mut Rec| check(&big_to_case(b, hk), rec, false),
    );

    run.finish("generated operators/pipelines x heterogeneous coordinate sets; metamorphic relations (singleton, permutation, chunking, repetition after history, fresh context, containers) compared on bit patterns; families of confusable operators applied in every order of pairs on one thread compared bit for bit with each operator alone on a freshly spawned thread; non-trivial cases counted per section rule");
}
