//! C05 — each map projection has the geometry that defines it.
//!
//! Oracle: the Jacobian of `Context::apply(Fwd)` obtained from central finite
//! differences (6th order, 13-point cross stencil, all stencil abscissae exactly
//! representable, steps shrinking towards the singular points of each mapping),
//! normalised by the meridional radius M and the parallel radius N·cos(lat) computed
//! in the harness (`vcore::refmath::El`).  From it: meridional scale h, parallel scale k,
//! cosine of the angle between the images of meridian and parallel, determinant
//! (orientation), areal scale.
//!   conformal projections (merc, tmerc/utm, lcc, omerc, somerc, btmerc/butm within
//!   3 degrees of the central meridian):  h = k,  cos(theta') = 0,  det > 0
//!   laea:     h·k·sin(theta') = det/(M·N·cos) = 1, det > 0
//!   webmerc:  (a·lon, a·asinh(tan lat)) in closed form
//!   lines of true scale, central-meridian northing (Gauss-Legendre quadrature of M),
//!   origins, azimuth of the omerc initial line: see `claims`.
//!   `geodesy::authoring::Jacobian::new(..).factors()` must agree with the harness values.
//! Tolerances have the form  T0(kind) + CR·eps·F/(step·radius)  (truncation / model floor plus
//! the rounding of the differenced coordinates, F = largest magnitude involved, including
//! intermediate quantities that cancel inside the library's formulas).  Points where the
//! rounding term alone exceeds the level of judgement (1e-8; 1e-7 beyond 80 degrees) are
//! counted as `skipped_noise_dominated`, never judged.
//! Presentation of longitudes (sections `presentation*`): the claims are statements about geographic
//! points, and a point may be handed to the library with any raw longitude. Every claim above is
//! re-judged with the stencils presented as computed from the central meridian, reduced to
//! [-180,180) / (-180,180] / [0,360), and 0, +-1, +-2, +-3 whole turns away (all 13 stencil points
//! moved alike by n·2·pi rounded to the lattice of the abscissae, so that differences stay exact), and
//! with the central meridian itself given +-1..3 turns outside [-180,180]; in addition the image must
//! equal that of the canonical presentation (`presentation-differs@..`; merc/webmerc, documented
//! without wrapping and linear in the raw longitude: easting moves by a·k_0 per radian). The rounding of
//! the unreduced longitude difference, 8·eps·(|lon| + |lon_0| + 2·pi) rad per point, enters every budget.
//! A failure is attributed to a parameter group by repeating the same case on reduced
//! definitions (`attribute`), which keeps the failure keys specific to a defect class.

use geodesy::authoring::{Factors, Jacobian};
use geodesy::prelude::*;
use proptest::prelude::*;
use serde::{Deserialize, Serialize};
use std::f64::consts::{FRAC_PI_2, PI, TAU};
use vcore::geo::*;
use vcore::guard::guard;
use vcore::refmath::{great_circle, great_circle_direct, integrate, El};
use vcore::*;

const EPS: f64 = f64::EPSILON;
const QUANT: f64 = 68_719_476_736.0; // 2^36: stencil abscissae are multiples of 2^-36 rad
const LATMAX: f64 = 89.9;

fn quant(v: f64) -> f64 {
    (v * QUANT).round() / QUANT
}

// ---- definitions ------------------------------------------------------------------

#[derive(Clone, Debug, Serialize, Deserialize, PartialEq)]
enum Ell {
    Named(String),
    /// rendered as `ellps=a,rf`
    Custom { a: F, rf: F },
}

impl Ell {
    fn text(&self) -> String {
        match self {
            Ell::Named(n) => n.clone(),
            Ell::Custom { a, rf } => format!("{},{}", a.0, rf.0),
        }
    }
    fn class(&self) -> String {
        match self {
            Ell::Named(n) => n.clone(),
            Ell::Custom { rf, .. } => {
                if rf.0 > 1000.0 {
                    "custom-nearly-spherical".into()
                } else {
                    "custom".into()
                }
            }
        }
    }
}

#[derive(Clone, Copy, Debug, PartialEq, Eq, Hash)]
enum Kind {
    Merc,
    Webmerc,
    Tmerc,
    Btmerc,
    Utm,
    Butm,
    Lcc,
    Laea,
    Omerc,
    Somerc,
}

impl Kind {
    fn of(op: &str) -> Option<Kind> {
        Some(match op {
            "merc" => Kind::Merc,
            "webmerc" => Kind::Webmerc,
            "tmerc" => Kind::Tmerc,
            "btmerc" => Kind::Btmerc,
            "utm" => Kind::Utm,
            "butm" => Kind::Butm,
            "lcc" => Kind::Lcc,
            "laea" => Kind::Laea,
            "omerc" => Kind::Omerc,
            "somerc" => Kind::Somerc,
            _ => return None,
        })
    }
    fn conformal(self) -> bool {
        !matches!(self, Kind::Webmerc | Kind::Laea)
    }
    fn bowring(self) -> bool {
        matches!(self, Kind::Btmerc | Kind::Butm)
    }
    fn transverse(self) -> bool {
        matches!(self, Kind::Tmerc | Kind::Btmerc | Kind::Utm | Kind::Butm)
    }
}

/// A projection definition: operator name, ellipsoid, numeric parameters (degrees / metres,
/// as they appear in the text) and flags.
#[derive(Clone, Debug, Serialize, Deserialize, PartialEq)]
struct Def {
    op: String,
    ell: Ell,
    num: Vec<(String, F)>,
    flags: Vec<String>,
}

impl Def {
    fn new(op: &str, ell: Ell) -> Def {
        Def { op: op.into(), ell, num: vec![], flags: vec![] }
    }
    fn with(mut self, k: &str, v: f64) -> Def {
        self.num.retain(|(n, _)| n != k);
        self.num.push((k.into(), F(v)));
        self
    }
    fn flag(mut self, f: &str) -> Def {
        if !self.flags.iter().any(|x| x == f) {
            self.flags.push(f.into());
        }
        self
    }
    fn get(&self, k: &str) -> Option<f64> {
        self.num.iter().rev().find(|(n, _)| n == k).map(|(_, v)| v.0)
    }
    fn or(&self, k: &str, d: f64) -> f64 {
        self.get(k).unwrap_or(d)
    }
    fn has(&self, f: &str) -> bool {
        self.flags.iter().any(|x| x == f)
    }
    fn kind(&self) -> Kind {
        Kind::of(&self.op).expect("generator only makes known operators")
    }
    fn text(&self) -> String {
        let mut s = format!("{} ellps={}", self.op, self.ell.text());
        for (k, v) in &self.num {
            if k == "zone" {
                s += &format!(" zone={}", v.0 as i64);
            } else {
                s += &format!(" {}={}", k, v.0);
            }
        }
        for f in &self.flags {
            s += " ";
            s += f;
        }
        s
    }
}

/// Optional parameter groups (name, members, default values) per kind: what may be dropped
/// when a failure is attributed to a parameter class. Aspect-defining parameters (laea/somerc
/// lat_0, omerc latc/alpha, lcc lat_1, utm zone) are not optional.
fn optional_groups(kind: Kind) -> Vec<(&'static str, Vec<(&'static str, f64)>)> {
    let xy = ("x_0,y_0", vec![("x_0", 0.0), ("y_0", 0.0)]);
    let lon0 = ("lon_0", vec![("lon_0", 0.0)]);
    let k0 = ("k_0", vec![("k_0", 1.0)]);
    match kind {
        Kind::Merc => vec![lon0, ("lat_0", vec![("lat_0", 0.0)]), k0, ("lat_ts", vec![("lat_ts", 0.0)]), xy],
        Kind::Webmerc => vec![],
        Kind::Tmerc | Kind::Btmerc => vec![("lat_0", vec![("lat_0", 0.0)]), lon0, k0, xy],
        Kind::Utm | Kind::Butm => vec![],
        Kind::Lcc => vec![
            ("lat_2", vec![("lat_2", f64::NAN)]),
            ("lat_0", vec![("lat_0", f64::NAN)]),
            lon0,
            k0,
            xy,
        ],
        Kind::Laea => vec![lon0, xy],
        Kind::Omerc => vec![("lonc", vec![("lonc", 0.0)]), k0, xy],
        Kind::Somerc => vec![lon0, k0, xy],
    }
}

fn is_default(v: Option<f64>, d: f64) -> bool {
    match v {
        None => true,
        Some(v) => (d.is_nan() && v.is_nan()) || v == d,
    }
}

/// Names of the optional groups (and flags) that are present with a non-default value.
fn present_groups(def: &Def) -> Vec<String> {
    let mut out = vec![];
    for (name, members) in optional_groups(def.kind()) {
        if members.iter().any(|(k, d)| !is_default(def.get(k), *d)) {
            out.push(name.to_string());
        }
    }
    if def.kind() != Kind::Omerc {
        for f in &def.flags {
            out.push(f.clone());
        }
    }
    out
}

/// The definition reduced to its required parameters plus the listed optional groups / flags.
fn reduced(def: &Def, keep: &[String]) -> Def {
    let mut d = def.clone();
    for (name, members) in optional_groups(def.kind()) {
        if !keep.iter().any(|k| k == name) {
            d.num.retain(|(k, _)| !members.iter().any(|(m, _)| m == k));
        }
    }
    if def.kind() != Kind::Omerc {
        d.flags.retain(|f| keep.iter().any(|k| k == f));
    }
    d
}

// ---- meaning of a definition (from the documentation) ------------------------------

#[derive(Clone, Debug)]
struct Sem {
    kind: Kind,
    /// longitude of the central meridian / projection centre, radians
    lon_c: f64,
    /// latitude of the projection centre where the documentation defines one, radians
    lat_c: Option<f64>,
    k_0: f64,
    x_0: f64,
    y_0: f64,
    /// label for class histograms and keys
    aspect: String,
}

fn sem(def: &Def, el: &El) -> Sem {
    let kind = def.kind();
    let deg = |k: &str| def.or(k, 0.0).to_radians();
    let mut s = Sem {
        kind,
        lon_c: deg("lon_0"),
        lat_c: Some(deg("lat_0")),
        k_0: def.or("k_0", 1.0),
        x_0: def.or("x_0", 0.0),
        y_0: def.or("y_0", 0.0),
        aspect: String::new(),
    };
    match kind {
        Kind::Merc => {
            // lat_0 of merc: the documentation calls it the latitude of the projection centre, but
            // the cylinder is tangent/secant along the equator whatever it is; only (lon_0, 0) -> (x_0, y_0)
            // is claimed and only when lat_0 is absent
            s.lat_c = if is_default(def.get("lat_0"), 0.0) { Some(0.0) } else { None };
            let ts = def.or("lat_ts", 0.0);
            if ts != 0.0 {
                let (sn, cs) = ts.to_radians().sin_cos();
                s.k_0 = cs / (1.0 - el.es() * sn * sn).sqrt();
                s.aspect = "lat_ts".into();
            } else {
                s.aspect = "k_0".into();
            }
            if def.get("lat_0").is_some() {
                s.aspect += "+lat_0";
            }
        }
        Kind::Webmerc => {
            s.aspect = "webmerc".into();
        }
        Kind::Tmerc | Kind::Btmerc => {
            s.aspect = if def.or("lat_0", 0.0) == 0.0 { "lat_0=0".into() } else { "lat_0".into() };
        }
        Kind::Utm | Kind::Butm => {
            let z = def.or("zone", 0.0);
            s.lon_c = (6.0 * z - 183.0).to_radians();
            s.lat_c = Some(0.0);
            s.k_0 = 0.9996;
            s.x_0 = 500_000.0;
            s.y_0 = if def.has("south") { 10_000_000.0 } else { 0.0 };
            s.aspect = if def.has("south") { "south".into() } else { "north".into() };
        }
        Kind::Lcc => {
            let two = def.get("lat_2").map(|v| !v.is_nan() && v != def.or("lat_1", 0.0)).unwrap_or(false);
            let lat0 = def.get("lat_0").filter(|v| !v.is_nan());
            s.lat_c = match (lat0, two) {
                (Some(v), _) => Some(v.to_radians()),
                (None, false) => Some(def.or("lat_1", 0.0).to_radians()),
                (None, true) => None,
            };
            s.aspect = format!(
                "{}-{}{}",
                if two { "2sp" } else { "1sp" },
                if def.or("lat_1", 0.0) + def.get("lat_2").filter(|v| !v.is_nan()).unwrap_or(def.or("lat_1", 0.0)) > 0.0 { "north" } else { "south" },
                if lat0.is_some() { "+lat_0" } else { "" }
            );
        }
        Kind::Laea => {
            let l = def.or("lat_0", 0.0);
            s.aspect = if l == 90.0 {
                "north-polar".into()
            } else if l == -90.0 {
                "south-polar".into()
            } else if l == 0.0 {
                "equatorial".into()
            } else if l > 0.0 {
                "oblique-north".into()
            } else {
                "oblique-south".into()
            };
            s.k_0 = 1.0;
        }
        Kind::Omerc => {
            s.lon_c = deg("lonc");
            s.lat_c = Some(deg("latc"));
            let laborde = def.get("gamma_c").map(|g| g.is_nan()).unwrap_or(true);
            s.aspect = format!(
                "{}{}",
                if laborde { "laborde" } else if def.has("variant") { "B" } else { "A" },
                {
                    let raw = def.or("alpha", 0.0);
                    let a = raw.rem_euclid(360.0);
                    if raw == -90.0 {
                        "-alpha-90"
                    } else if a == 90.0 {
                        "-alpha90"
                    } else if a == 270.0 {
                        "-alpha270"
                    } else if a > 90.0 && a < 270.0 {
                        "-alpha-obtuse"
                    } else {
                        ""
                    }
                }
            );
        }
        Kind::Somerc => {
            s.aspect = if def.or("lat_0", 0.0) == 0.0 { "equatorial".into() } else { "oblique".into() };
        }
    }
    s
}

/// false origin is stated to be at the projection centre
fn origin_at_centre(def: &Def, s: &Sem) -> bool {
    match s.kind {
        // Hotine variant A: (x_0, y_0) is at the natural origin, not at the centre
        Kind::Omerc => def.has("variant") || def.get("gamma_c").map(|g| g.is_nan()).unwrap_or(true),
        _ => s.lat_c.is_some(),
    }
}

// ---- the case ---------------------------------------------------------------------

#[derive(Clone, Debug, Serialize, Deserialize)]
struct Case {
    def: Def,
    /// points as (longitude relative to the central meridian / centre, latitude), radians
    pts: Vec<[F; 2]>,
    /// also compare with the library's own Jacobian/Factors
    libjac: bool,
    /// how the longitudes (and the central meridian) are presented to the library
    #[serde(default)]
    pres: Pres,
}

/// Presentation of longitudes. A geographic point may be handed to the library with any raw
/// longitude: as computed (central meridian + difference), reduced to one of the customary
/// ranges, or a number of whole turns away (unwrapped / accumulated longitudes); a central
/// meridian may likewise be given outside [-180, 180] degrees.
#[derive(Clone, Copy, Debug, Default, Serialize, Deserialize, PartialEq)]
struct Pres {
    /// 0: the canonical presentation of the other sections (inside [-180, 180], stencil points
    /// wrapped one by one); 1: as computed; 2: [-180, 180); 3: (-180, 180]; 4: [0, 360)
    mode: u8,
    /// whole turns added to every longitude after `mode`
    turns: i8,
    /// whole turns (of 360 degrees) added to lon_0 / lonc in the definition text
    cm_turns: i8,
}

impl Pres {
    fn canonical(&self) -> bool {
        self.mode == 0 && self.turns == 0
    }
    fn plain(&self) -> bool {
        self.canonical() && self.cm_turns == 0
    }
    /// whole turns to add to the longitude `lon` (radians)
    fn turns_for(&self, lon: f64) -> f64 {
        let m = match self.mode {
            2 => -((lon + PI) / TAU).floor(),
            3 => -((lon - PI) / TAU).ceil(),
            4 => -(lon / TAU).floor(),
            _ => 0.0,
        };
        m + self.turns as f64
    }
    fn label(&self) -> String {
        let m = match self.mode {
            0 => "canonical",
            1 => "as-computed",
            2 => "[-180,180)",
            3 => "(-180,180]",
            _ => "[0,360)",
        };
        format!("{m}{:+}turns", self.turns)
    }
}

/// name of the parameter that holds the central meridian, where the operator has one
fn cm_param(kind: Kind) -> Option<&'static str> {
    match kind {
        Kind::Webmerc | Kind::Utm | Kind::Butm => None,
        Kind::Omerc => Some("lonc"),
        _ => Some("lon_0"),
    }
}

/// the definition with its central meridian given `cm_turns` whole turns away
fn with_cm_turns(def: &Def, pres: &Pres) -> Def {
    match cm_param(def.kind()) {
        Some(k) if pres.cm_turns != 0 => def.clone().with(k, def.or(k, 0.0) + 360.0 * pres.cm_turns as f64),
        _ => def.clone(),
    }
}

// ---- finite differences -----------------------------------------------------------

/// Finite-difference steps (lon, lat) at a point: shrink towards singular points of the mapping
/// (geographic poles for every projection; the antipode of the centre for laea; the two
/// singular points on the equator 90 degrees from the central meridian for the transverse family).
fn steps(s: &Sem, dlon: f64, lat: f64) -> (f64, f64) {
    let mut sigma: f64 = 1.0;
    match s.kind {
        Kind::Laea => {
            let (d, _, _) = great_circle(1.0, 0.0, s.lat_c.unwrap_or(0.0), dlon, lat);
            sigma = (PI - d).min(1.0).max(1e-3);
        }
        k if k.transverse() => {
            let c = lat.cos() * dlon.sin();
            sigma = (1.0 - c * c).sqrt().max(0.05);
        }
        _ => {}
    }
    let hl0 = if s.kind.bowring() { 2.5e-4 } else { 4e-3 };
    let hl = quant(hl0 * sigma).max(64.0 / QUANT);
    // The geographic poles are singular points of the cylindrical and conic mappings (and, through
    // the conformal sphere with constant c != 1, of somerc and omerc): there the latitude step
    // follows cos(lat). The transverse family and laea are regular at the poles: the step only has
    // to keep the stencil on this side of the pole.
    let pole_singular = matches!(s.kind, Kind::Merc | Kind::Webmerc | Kind::Lcc | Kind::Omerc | Kind::Somerc);
    let hp0 = if pole_singular { 4e-3 * sigma * lat.cos().max(1e-4) } else { (4e-3 * sigma).min((FRAC_PI_2 - lat.abs()) / 4.0) };
    let hp = quant(hp0).max(64.0 / QUANT);
    (hl, hp)
}

#[derive(Clone, Copy, Debug)]
struct Jac {
    /// longitude as central meridian + difference (may leave [-180, 180] degrees)
    lon: f64,
    /// the longitude handed to the library: `lon` brought into [-180, 180] degrees
    lon_in: f64,
    /// some points of the longitude stencil lie on the other side of +-180 degrees and were wrapped
    wrapped: bool,
    lat: f64,
    x: f64,
    y: f64,
    xl: f64,
    yl: f64,
    xp: f64,
    yp: f64,
    hl: f64,
    hp: f64,
    fmax: f64,
    /// rounding of the longitude difference inside the library beyond the canonical presentation
    /// (radians, per stencil point; 0 for the canonical presentation)
    eps_lon: f64,
}

struct Inst {
    ctx: Minimal,
    op: OpHandle,
    text: String,
    el: El,
    ellps: Ellipsoid,
    sem: Sem,
    /// operator name, with the aspect where it selects a different branch of the formulas (laea, omerc)
    kop: String,
    pres: Pres,
}

fn instantiate(def: &Def, pres: Pres) -> Result<Inst, Failure> {
    let text = def.text();
    let etext = def.ell.text();
    let ellps = match guard(|| Ellipsoid::named(&etext)) {
        Err(p) => vfail!(format!("panic-ellipsoid@{}", p.sig()), "Ellipsoid::named(\"{etext}\") panics: {} at {}:{}", p.msg, p.file, p.line),
        Ok(Err(e)) => vfail!("ellipsoid-rejected", "Ellipsoid::named(\"{etext}\") fails: {e:?}"),
        Ok(Ok(e)) => e,
    };
    let el = El::new(ellps.semimajor_axis(), ellps.flattening());
    let mut ctx = Minimal::new();
    let op = match try_op(&mut ctx, &text) {
        Err(p) => vfail!(format!("panic-instantiate@{}", p.sig()), "instantiating '{text}' panics: {} at {}:{}", p.msg, p.file, p.line),
        Ok(Err(e)) => vfail!(format!("rejected@{}", def.op), "documented parameterisation '{text}' rejected: {e:?}"),
        Ok(Ok(op)) => op,
    };
    let sem = sem(def, &el);
    let kop = if matches!(sem.kind, Kind::Laea | Kind::Omerc) { format!("{}/{}", def.op, sem.aspect) } else { def.op.clone() };
    Ok(Inst { ctx, op, text, el, ellps, sem, kop, pres })
}

impl Inst {
    fn fwd(&self, data: &mut Vec<Coor4D>, what: &str) -> Result<(), Failure> {
        let n = data.len();
        match try_apply(&self.ctx, self.op, Fwd, data) {
            Err(p) => vfail!(format!("panic-apply@{}", p.sig()), "'{}' forward panics ({what}): {} at {}:{}", self.text, p.msg, p.file, p.line),
            Ok(Err(e)) => vfail!("apply-error", "'{}' forward returns an error ({what}): {e:?}", self.text),
            Ok(Ok(c)) => {
                if c != n {
                    // report the first tuple that is not finite
                    let bad = data.iter().position(|c| !(c[0].is_finite() && c[1].is_finite()));
                    vfail!(
                        format!("not-projected-in-domain@{}", self.kop),
                        "'{}' forward projects {c} of {n} tuples inside the documented domain ({what}); first non-finite result at index {bad:?}",
                        self.text
                    );
                }
            }
        }
        Ok(())
    }

    /// A single longitude as presented to the library: brought into the range of the presentation
    /// mode, then moved by whole turns (one rounding of the sum, covered by `eps_lon`).
    fn present(&self, lon: f64) -> f64 {
        if self.pres.plain() {
            lon
        } else if self.pres.canonical() {
            vcore::refmath::wrap_pi(lon)
        } else {
            lon + self.pres.turns_for(lon) * TAU
        }
    }

    /// Rounding budget (radians) of the longitude difference from the central meridian when longitudes
    /// or the central meridian are whole turns away: the sum lon + n·2·pi (half an ulp), the f64 value
    /// of 2·pi against the true one (n·2.5e-16), and inside the library the difference lon - lon_0 and
    /// the shift by pi before the modulo (half an ulp each, of magnitudes up to |lon| + |lon_0| + pi):
    /// together at most 2·eps·(|lon| + |lon_0| + 2·pi); taken four times as large.
    fn eps_lon(&self, presented: f64) -> f64 {
        if self.pres.plain() {
            0.0
        } else {
            8.0 * EPS * (presented.abs() + self.sem.lon_c.abs() + TAU)
        }
    }

    /// One forward evaluation of a single geographic point (radians)
    fn at(&self, lon: f64, lat: f64, what: &str) -> Result<(f64, f64), Failure> {
        let mut d = vec![Coor4D::raw(lon, lat, 0.0, 0.0)];
        self.fwd(&mut d, what)?;
        if !(d[0][0].is_finite() && d[0][1].is_finite()) {
            vfail!(
                format!("not-projected-in-domain@{}", self.kop),
                "'{}' forward of ({}, {}) deg ({what}) is not finite: {}",
                self.text,
                lon.to_degrees(),
                lat.to_degrees(),
                fmt_c4(&d[0])
            );
        }
        Ok((d[0][0], d[0][1]))
    }

    /// Jacobians at absolute points (lon, lat, hl, hp), all quantised already.
    fn jacobians(&self, pts: &[(f64, f64, f64, f64)]) -> Result<Vec<Jac>, Failure> {
        // Longitudes are handed over the way a user gives them: inside [-180, 180] degrees, so that a
        // domain around a central meridian near the antimeridian straddles +-180. The points of the
        // longitude stencil are wrapped one by one as well, except for merc and webmerc, which are linear
        // in the raw longitude (a wrapped neighbour lies a full turn of the cylinder away: the stencil
        // then continues across the seam of the input instead).
        let wrap_stencil = !matches!(self.sem.kind, Kind::Merc | Kind::Webmerc);
        let mut data: Vec<Coor4D> = Vec::with_capacity(pts.len() * 13);
        let mut inputs: Vec<(f64, bool)> = Vec::with_capacity(pts.len());
        for &(lon, lat, hl, hp) in pts {
            if !self.pres.canonical() {
                // Presented a whole number n of turns away, all 13 points alike. n·2·pi is rounded to the
                // lattice of the abscissae (multiples of 2^-36 rad), so that every sum below is exact and the
                // differences of the abscissae stay exact; the stencil as a whole then sits 2^-37 rad
                // (0.05 mm) at most beside the point, which no differential claim can see.
                let c = lon + quant(self.pres.turns_for(lon) * TAU);
                data.push(Coor4D::raw(c, lat, 0.0, 0.0));
                for k in [-3.0, -2.0, -1.0, 1.0, 2.0, 3.0] {
                    data.push(Coor4D::raw(c + k * hl, lat, 0.0, 0.0));
                }
                for k in [-3.0, -2.0, -1.0, 1.0, 2.0, 3.0] {
                    data.push(Coor4D::raw(c, lat + k * hp, 0.0, 0.0));
                }
                inputs.push((c, false));
                continue;
            }
            let lon_in = if lon.abs() > PI { quant(vcore::refmath::wrap_pi(lon)) } else { lon };
            let mut wrapped = false;
            data.push(Coor4D::raw(lon_in, lat, 0.0, 0.0));
            for k in [-3.0, -2.0, -1.0, 1.0, 2.0, 3.0] {
                let mut p = lon_in + k * hl;
                if wrap_stencil && p.abs() > PI {
                    p = vcore::refmath::wrap_pi(p);
                    wrapped = true;
                }
                data.push(Coor4D::raw(p, lat, 0.0, 0.0));
            }
            for k in [-3.0, -2.0, -1.0, 1.0, 2.0, 3.0] {
                data.push(Coor4D::raw(lon_in, lat + k * hp, 0.0, 0.0));
            }
            inputs.push((lon_in, wrapped));
        }
        self.fwd(&mut data, "finite-difference stencil")?;
        let mut out = Vec::with_capacity(pts.len());
        for (i, &(lon, lat, hl, hp)) in pts.iter().enumerate() {
            let s = &data[i * 13..(i + 1) * 13];
            let mut fmax: f64 = 0.0;
            for c in s {
                if !(c[0].is_finite() && c[1].is_finite()) {
                    vfail!(
                        format!("not-projected-in-domain@{}", self.kop),
                        "'{}' forward is not finite on the stencil around ({}, {}) deg (steps {hl:e}, {hp:e} rad): {}",
                        self.text,
                        lon.to_degrees(),
                        lat.to_degrees(),
                        fmt_c4(c)
                    );
                }
                fmax = fmax.max(c[0].abs()).max(c[1].abs());
            }
            let d6 = |j: usize, base: usize, h: f64| -> f64 {
                // base+0..base+5 = offsets -3,-2,-1,1,2,3
                (45.0 * (s[base + 3][j] - s[base + 2][j]) - 9.0 * (s[base + 4][j] - s[base + 1][j]) + (s[base + 5][j] - s[base][j])) / (60.0 * h)
            };
            out.push(Jac {
                lon,
                lon_in: inputs[i].0,
                wrapped: inputs[i].1,
                lat,
                x: s[0][0],
                y: s[0][1],
                xl: d6(0, 1, hl),
                yl: d6(1, 1, hl),
                xp: d6(0, 7, hp),
                yp: d6(1, 7, hp),
                hl,
                hp,
                fmax,
                eps_lon: self.eps_lon(inputs[i].0.abs() + 3.0 * hl),
            });
        }
        Ok(out)
    }
}

#[derive(Clone, Copy, Debug)]
struct Fac {
    h: f64,
    k: f64,
    s: f64,
    cos_t: f64,
    det: f64,
    /// rounding budget of k and of h (absolute, in units of scale factor)
    dk: f64,
    dh: f64,
}

const CR: f64 = 8.0;

fn factors(j: &Jac, el: &El, extra_f: f64) -> Fac {
    let m = el.m(j.lat);
    let nc = el.n(j.lat) * j.lat.cos();
    let dl = j.xl.hypot(j.yl);
    let dp = j.xp.hypot(j.yp);
    let det = j.xl * j.yp - j.xp * j.yl;
    let f = j.fmax.max(el.a) + extra_f;
    Fac {
        h: dp / m,
        k: dl / nc,
        s: det / (m * nc),
        cos_t: (j.xl * j.xp + j.yl * j.yp) / (dl * dp),
        det,
        // a wrapped stencil point is displaced by the rounding of 2·pi (some 1e-15 rad)
        // unreduced longitudes: every point of the longitude stencil carries its own rounding of the
        // longitude difference (weights of the 6th order stencil: 110/60)
        dk: CR * EPS * f / (j.hl * nc) + if j.wrapped { dl / nc * 8.0 * EPS * PI / j.hl } else { 0.0 } + dl / nc * 2.0 * j.eps_lon / j.hl,
        dh: CR * EPS * f / (j.hp * m),
    }
}

/// Truncation / model floor of the conformality test per kind (relative).
fn floor_conformal(kind: Kind, el: &El, dlon: f64) -> f64 {
    match kind {
        // Bowring's formulas are a truncated series in the longitude difference: not exactly conformal.
        // calibrated: see evidence metric conformal_floor_ratio@btmerc
        Kind::Btmerc | Kind::Butm => {
            // measured (probe over 0..89.9 deg latitude): |h-k|/k = 0.55·n^4 on the central meridian and
            // 0.75·es^2·dlon^4 off it (GRS80: 5e-12 / 2.5e-10 at 3 deg; f = 1/150: 6.7e-11 / 9.4e-10)
            let w = dlon.abs() + 1e-3;
            4e-10 + 3.0 * el.n3().powi(4) + 4.0 * el.es() * el.es() * w.powi(4)
        }
        _ => 2e-10,
    }
}

/// Magnitudes of intermediate quantities inside the forward formulas that are larger than the
/// output coordinates (cancellation): they enter the rounding budget of the differences.
///   lcc: y = a·k_0·(rho0 - rho·cos(n·dlon)), rho = |d(x,y)/dlon| / n
///   laea polar: rho = a·sqrt(qp -+ q) loses digits towards the centre: error eps·a^2/rho
///   laea oblique: B = Rq·sqrt(2/(1 + cos c)) with 1 + cos c from a cancelling sum near the antipode
fn internal_magnitude(s: &Sem, el: &El, lcc_n: f64, j: &Jac) -> f64 {
    match s.kind {
        Kind::Lcc => j.xl.hypot(j.yl) / lcc_n,
        Kind::Laea => {
            let lat_c = s.lat_c.unwrap_or(0.0);
            let (d, _, _) = great_circle(1.0, 0.0, lat_c, j.lon - s.lon_c, j.lat);
            let rho = 2.0 * el.a * (d / 2.0).sin();
            // q(lat) is computed as a difference of two nearly equal terms when e is small:
            // its rounding is eps/(2e) rather than eps
            let qnoise = if el.e() > 0.0 { 1.0 + 0.25 / el.e() } else { 1.0 };
            if lat_c.abs() == FRAC_PI_2 {
                qnoise * el.a * el.a / rho.max(el.a * 1e-9)
            } else {
                // authalic latitude through asin(q/qp): ill-conditioned towards the poles
                qnoise * el.a / j.lat.cos().max(1e-9) + rho / (1.0 + d.cos()).max(1e-9)
            }
        }
        _ => 0.0,
    }
}

// ---- claims: lines of true scale, central meridian northing, origins ---------------

#[derive(Clone, Debug)]
enum Claim {
    /// scale factor (both h and k) at (dlon, lat) equals `k`
    Scale { dlon: f64, lat: f64, k: f64, tag: &'static str },
    /// the image of the meridian through (dlon, lat) has this grid bearing (radians, clockwise from grid north)
    NorthBearing { dlon: f64, lat: f64, bearing: f64, tag: &'static str },
    /// the point (absolute lon, lat) maps to (x, y) within tol metres
    Maps { lon: f64, lat: f64, x: f64, y: f64, tol: f64, tag: &'static str },
}

fn lcc_cone_constant(def: &Def, el: &El) -> f64 {
    // Snyder (15-8) / (15-7): only used for the rounding budget, never as an expected value
    let p1 = def.or("lat_1", 0.0).to_radians();
    let p2 = def.get("lat_2").filter(|v| !v.is_nan()).map(|v| v.to_radians()).unwrap_or(p1);
    if (p1 - p2).abs() < 1e-10 {
        return p1.sin();
    }
    let m = |p: f64| p.cos() / (1.0 - el.es() * p.sin() * p.sin()).sqrt();
    let t = |p: f64| (-el.isometric(p)).exp();
    (m(p1) / m(p2)).ln() / (t(p1) / t(p2)).ln()
}

fn claims(def: &Def, s: &Sem, el: &El, pts: &[[F; 2]]) -> Vec<Claim> {
    let mut out = vec![];
    let scale_m = el.a / 6_378_137.0;
    let some_pts: Vec<(f64, f64)> = pts.iter().take(3).map(|p| (p[0].0, p[1].0)).collect();
    let pos_tol = |extra: f64| 1e-6 * scale_m + 64.0 * EPS * (s.x_0.abs() + s.y_0.abs() + 2.0 * el.a * s.k_0.max(1.0) + extra);
    match s.kind {
        Kind::Merc => {
            for &(dl, _) in &some_pts {
                out.push(Claim::Scale { dlon: dl, lat: 0.0, k: s.k_0, tag: "k_0-on-equator" });
                let ts = def.or("lat_ts", 0.0);
                if ts != 0.0 && ts.abs() <= 89.0 {
                    out.push(Claim::Scale { dlon: dl, lat: ts.to_radians(), k: 1.0, tag: "unity-at-lat_ts" });
                    out.push(Claim::Scale { dlon: dl, lat: -ts.to_radians(), k: 1.0, tag: "unity-at-lat_ts" });
                }
            }
        }
        Kind::Tmerc | Kind::Btmerc | Kind::Utm | Kind::Butm => {
            let lat_0 = s.lat_c.unwrap_or(0.0);
            let n4 = el.n3().powi(4);
            for &(_, lat) in &some_pts {
                out.push(Claim::Scale { dlon: 0.0, lat, k: s.k_0, tag: "k_0-on-central-meridian" });
                let arc = integrate(|p| el.m(p), lat_0, lat, 12);
                // Bowring's meridian arc formula is good to a fraction of a·n^4
                let model = if s.kind.bowring() { 0.8 * el.a * n4 * s.k_0 } else { 0.0 };
                out.push(Claim::Maps {
                    lon: s.lon_c,
                    lat,
                    x: s.x_0,
                    y: s.y_0 + s.k_0 * arc,
                    tol: pos_tol(0.0) + model,
                    tag: "central-meridian-northing",
                });
            }
        }
        Kind::Lcc => {
            let p1 = def.or("lat_1", 0.0);
            let p2 = def.get("lat_2").filter(|v| !v.is_nan());
            for &(dl, _) in some_pts.iter().take(2) {
                out.push(Claim::Scale { dlon: dl, lat: p1.to_radians(), k: s.k_0, tag: "k_0-on-lat_1" });
                if let Some(p2) = p2 {
                    out.push(Claim::Scale { dlon: dl, lat: p2.to_radians(), k: s.k_0, tag: "k_0-on-lat_2" });
                }
            }
        }
        Kind::Somerc | Kind::Omerc => {
            out.push(Claim::Scale { dlon: 0.0, lat: s.lat_c.unwrap_or(0.0), k: s.k_0, tag: "k_0-at-centre" });
            if s.kind == Kind::Omerc {
                // The u axis of the skew grid is tangent to the initial line, whose true azimuth at the
                // centre is alpha; gamma_c is the angle from the rectified to the skew grid. Hence true
                // north at the centre has the grid bearing gamma_c - alpha (IOGP 373-7-2, Hotine oblique
                // Mercator; Laborde form: gamma_c = alpha).
                let alpha = def.or("alpha", 0.0);
                let gamma = def.get("gamma_c").filter(|g| !g.is_nan()).unwrap_or(alpha);
                out.push(Claim::NorthBearing { dlon: 0.0, lat: s.lat_c.unwrap_or(0.0), bearing: (gamma - alpha).to_radians(), tag: "initial-line-azimuth" });
            }
        }
        Kind::Laea => {
            // azimuthal: the centre is the point of no distortion (the constant D of the oblique
            // ellipsoidal form exists to make it so, Snyder 1987 p. 187); not checkable by differences
            // at a pole, where the longitude derivative vanishes
            let lat_c = s.lat_c.unwrap_or(0.0);
            if lat_c.abs() < 89.5f64.to_radians() {
                out.push(Claim::Scale { dlon: 0.0, lat: lat_c, k: 1.0, tag: "unit-scale-at-centre" });
            }
        }
        Kind::Webmerc => {}
    }
    if origin_at_centre(def, s) {
        let extra = if s.kind == Kind::Lcc { el.a * s.k_0 / lcc_cone_constant(def, el).abs().max(1e-3) } else { 0.0 };
        // omerc: sqrt(D^2 - 1) is formed by cancellation when the centre is close to the equator
        // (worst observed 1.0e-6 m at latc = 0.024 deg, alpha = 90, 3e-6 m in 6.5e6 thorough cases): 10 micrometres instead of 1
        let slack = if s.kind == Kind::Omerc { 10.0 } else { 1.0 };
        out.push(Claim::Maps { lon: s.lon_c, lat: s.lat_c.unwrap(), x: s.x_0, y: s.y_0, tol: slack * pos_tol(extra), tag: "false-origin-at-centre" });
    }
    out
}

// ---- the oracle -------------------------------------------------------------------

thread_local! {
    /// error / tolerance of the comparison that failed last (attribution is only attempted
    /// for gross failures: marginal ones do not reproduce reliably on a reduced definition)
    static LAST_RATIO: std::cell::Cell<f64> = const { std::cell::Cell::new(0.0) };
}
fn note(e: f64, tol: f64) -> bool {
    let ok = e <= tol;
    if !ok {
        LAST_RATIO.with(|r| r.set(if tol > 0.0 { e / tol } else { f64::INFINITY }));
    }
    ok
}
const GROSS: f64 = 100.0;

fn check(case: &Case, rec: &mut Rec) -> CaseResult {
    match run_def(&case.def, case, rec, true) {
        Ok(()) => Ok(()),
        Err(f) if !case.pres.plain() => {
            // does the same case hold in the canonical presentation? Then the presentation of the
            // longitudes is what provokes the failure.
            let mut scratch = Rec::default();
            let canon = Case { pres: Pres::default(), ..case.clone() };
            match run_def(&canon.def, &canon, &mut scratch, false) {
                Ok(()) => Err(Failure {
                    key: format!("{}~unreduced-longitude", f.key),
                    msg: format!("{}\n  presentation of longitudes: {:?}; the same case holds with every longitude and the central meridian inside [-180, 180] deg", f.msg, case.pres),
                }),
                Err(_) => Err(attribute(case, f)),
            }
        }
        Err(f) => Err(attribute(case, f)),
    }
}

/// Attribute a geometric failure to the parameter group that provokes it: the same
/// check is repeated on the definition reduced to its required parameters, then with one
/// optional group at a time. The key names the first reduced definition that still fails.
fn attribute(case: &Case, f: Failure) -> Failure {
    let geometric = ["conformal-", "orientation@", "equal-area@", "true-scale@", "maps@", "north-bearing@", "merc-scale", "webmerc-", "libjac-"];
    if !geometric.iter().any(|g| f.key.starts_with(g)) || LAST_RATIO.with(|r| r.get()) < GROSS {
        return f;
    }
    let groups = present_groups(&case.def);
    if groups.is_empty() {
        return f;
    }
    let mut scratch = Rec::default();
    let d0 = reduced(&case.def, &[]);
    if let Err(f0) = run_def(&d0, case, &mut scratch, false) {
        if f0.key == f.key {
            return Failure { key: f.key.clone(), msg: format!("{}\n  (also fails with the optional parameters removed: '{}')", f.msg, d0.text()) };
        }
    }
    for g in &groups {
        let dg = reduced(&case.def, std::slice::from_ref(g));
        if let Err(fg) = run_def(&dg, case, &mut scratch, false) {
            if fg.key == f.key && LAST_RATIO.with(|r| r.get()) >= GROSS {
                return Failure {
                    key: format!("{}[{}]", f.key, g),
                    msg: format!("{}\n  attributed to parameter group [{g}]: the reduced definition '{}' fails the same way:\n  {}", f.msg, dg.text(), fg.msg),
                };
            }
        }
    }
    Failure { key: format!("{}[{}]", f.key, groups.join("+")), msg: f.msg }
}

fn run_def(def: &Def, case: &Case, rec: &mut Rec, record: bool) -> CaseResult {
    let def_ref = def;
    let def = &with_cm_turns(def, &case.pres);
    let inst = instantiate(def, case.pres)?;
    let el = inst.el;
    let s = inst.sem.clone();
    let kind = s.kind;
    let op = def.op.as_str();
    let aspect = format!("{}/{}", op, s.aspect);
    let kop: String = inst.kop.clone();
    let text = &inst.text;

    // ---- generic points: conformality / equal area / closed form
    let abs: Vec<(f64, f64, f64, f64)> = case
        .pts
        .iter()
        .map(|p| {
            let lon = quant(s.lon_c + p[0].0);
            let lat = quant(p[1].0);
            let (hl, hp) = steps(&s, lon - s.lon_c, lat);
            (lon, lat, hl, hp)
        })
        .collect();
    let jacs = inst.jacobians(&abs)?;
    let lcc_n = if kind == Kind::Lcc { lcc_cone_constant(def, &el).abs().max(1e-3) } else { 1.0 };
    // Presentation differential: the same geographic points through the same definition with the central
    // meridian as written and every longitude inside [-180, 180] (the presentation of the other sections)
    // on the one hand, and as presented here on the other.
    //   (reference x, y, reference longitude difference; presented x, y, longitude difference, longitude)
    let mut diff: Vec<[f64; 7]> = vec![];
    if !inst.pres.plain() {
        let ref_inst = instantiate(def_ref, Pres::default())?;
        let mut dref: Vec<Coor4D> = vec![];
        let mut dpre: Vec<Coor4D> = vec![];
        for p in &case.pts {
            let lon_ref = quant(ref_inst.sem.lon_c + p[0].0);
            // (not brought back to the lattice of the abscissae after wrapping: that would move the point)
            let lon_in_ref = if lon_ref.abs() > PI { vcore::refmath::wrap_pi(lon_ref) } else { lon_ref };
            // as computed from the central meridian as presented, then the presentation of longitudes
            let base = lon_ref + case.pres.cm_turns as f64 * TAU;
            let pl = if inst.pres.canonical() { vcore::refmath::wrap_pi(base) } else { base + inst.pres.turns_for(base) * TAU };
            dref.push(Coor4D::raw(lon_in_ref, quant(p[1].0), 0.0, 0.0));
            dpre.push(Coor4D::raw(pl, quant(p[1].0), 0.0, 0.0));
            diff.push([0.0, 0.0, lon_in_ref - ref_inst.sem.lon_c, 0.0, 0.0, pl - s.lon_c, pl]);
        }
        ref_inst.fwd(&mut dref, "reference presentation")?;
        inst.fwd(&mut dpre, "unreduced longitudes")?;
        for (i, d) in diff.iter_mut().enumerate() {
            (d[0], d[1], d[3], d[4]) = (dref[i][0], dref[i][1], dpre[i][0], dpre[i][1]);
        }
    }
    for (ji, j) in jacs.iter().enumerate() {
        let dlon = j.lon - s.lon_c;
        if let Some(sm) = seam(kind) {
            if dlon.abs() + 3.0 * j.hl >= sm {
                if record {
                    rec.count(&format!("skipped_at_seam@{op}"), 1);
                }
                continue;
            }
        }
        let xf = internal_magnitude(&s, &el, lcc_n, j);
        let fc = factors(j, &el, xf);
        let at = format!("(lon {:.9}, lat {:.9}) deg [{:+.6} deg from the central meridian]", j.lon_in.to_degrees(), j.lat.to_degrees(), dlon.to_degrees());
        vensure!(
            fc.h.is_finite() && fc.k.is_finite(),
            format!("degenerate-jacobian@{kop}"),
            "'{text}' at {at}: Jacobian not finite h={} k={} (derivatives {:?})",
            fc.h,
            fc.k,
            j
        );
        if let Some(d) = diff.get(ji) {
            // merc and webmerc are linear in the raw longitude by construction (documented without
            // wrapping): the easting moves by a·k_0 per radian; every other projection is a function of
            // the geographic point
            let linear = if matches!(kind, Kind::Merc | Kind::Webmerc) { el.a * s.k_0 * (d[5] - d[2]) } else { 0.0 };
            let dl = j.xl.hypot(j.yl);
            // omerc re-adds lambda_0 (up to 90 degrees from lonc) after normalising and subtracts it again, and forms
            // u - u_c by cancellation: worst observed 0.49 of the plain budget in 1e6 thorough cases, hence three times it
            let slack = if kind == Kind::Omerc { 3.0 } else { 1.0 };
            let tol = slack * (1e-9 * (el.a / 6_378_137.0) + 16.0 * EPS * (j.fmax.max(el.a) + xf + linear.abs()) + 2.0 * dl * inst.eps_lon(d[6]));
            let e = (d[3] - d[0] - linear).abs().max((d[4] - d[1]).abs());
            if record {
                rec.metric(&format!("presentation_err_m@{op}"), e / (el.a / 6_378_137.0));
                rec.metric(&format!("presentation_err_over_tol@{op}"), e / tol);
                rec.count(&format!("presentation-differential@{op}"), 1);
            }
            vensure!(
                e.is_finite() && note(e, tol),
                format!("presentation-differs@{kop}"),
                "'{text}': the point {:.9} deg from the central meridian at lat {:.9} deg, given as lon = {:.12} deg, maps to ({:.6}, {:.6}); the same point through '{}' with the longitude inside [-180, 180] maps to ({:.6}, {:.6}){}; difference {:.3e} m, tolerance {:.3e} m",
                d[2].to_degrees(),
                j.lat.to_degrees(),
                d[6].to_degrees(),
                d[3],
                d[4],
                def_ref.text(),
                d[0],
                d[1],
                if linear != 0.0 { format!(" (+ a·k_0·(difference of raw longitudes) = {linear:.6} m in x, linear by construction)") } else { String::new() },
                e,
                tol
            );
        }
        // where the rounding of the differenced coordinates alone exceeds the level at which the
        // identities are judged (1e-8; 1e-7 beyond 80 deg) nothing can be decided: counted, not judged
        let cap: f64 = if j.lat.abs() > 80f64.to_radians() { 1e-7 } else { 1e-8 };
        let big = fc.h.max(fc.k);
        if kind.conformal() && fc.dh + fc.dk > cap * big {
            if record {
                rec.count(&format!("skipped_noise_dominated@{op}"), 1);
            }
        } else if kind.conformal() {
            let t0 = floor_conformal(kind, &el, dlon);
            let tol = t0 + (fc.dh + fc.dk) / big;
            let e1 = (fc.h - fc.k).abs() / big;
            if record {
                rec.metric(&format!("conformal_scale_err@{op}"), e1);
                rec.metric(&format!("conformal_scale_err_over_tol@{op}"), e1 / tol);
                rec.metric(&format!("conformal_angle_err@{op}"), fc.cos_t.abs());
                rec.metric(&format!("conformal_angle_err_over_tol@{op}"), fc.cos_t.abs() / tol);
                rec.metric(&format!("tolerance_used@{op}"), tol);
            }
            vensure!(
                note(e1, tol),
                format!("conformal-scale@{kop}"),
                "'{text}' is not conformal at {at}: meridional scale h={:.15} differs from parallel scale k={:.15} by {:.3e} relative (tolerance {:.3e}); Jacobian dx/dlon={:.6} dy/dlon={:.6} dx/dlat={:.6} dy/dlat={:.6} m/rad, M={:.6} N·cos={:.6}",
                fc.h,
                fc.k,
                e1,
                tol,
                j.xl,
                j.yl,
                j.xp,
                j.yp,
                el.m(j.lat),
                el.n(j.lat) * j.lat.cos()
            );
            vensure!(
                !fc.cos_t.is_finite() || note(fc.cos_t.abs(), tol),
                format!("conformal-angle@{kop}"),
                "'{text}' at {at}: images of meridian and parallel are not orthogonal, cos(theta')={:.3e} (tolerance {:.3e}); Jacobian dx/dlon={:.6} dy/dlon={:.6} dx/dlat={:.6} dy/dlat={:.6}",
                fc.cos_t,
                tol,
                j.xl,
                j.yl,
                j.xp,
                j.yp
            );
            vensure!(
                note(if fc.det > 0.0 { 0.0 } else { f64::INFINITY }, 1.0),
                format!("orientation@{kop}"),
                "'{text}' at {at}: orientation reversed, Jacobian determinant {:.6e} <= 0",
                fc.det
            );
            if kind == Kind::Merc && is_default(def.get("lat_0"), 0.0) {
                // a Mercator has k = k_0·a/(N·cos(lat)) everywhere
                let kref = s.k_0 * el.a / (el.n(j.lat) * j.lat.cos());
                let e = (fc.k - kref).abs() / kref;
                if record {
                    rec.metric("merc_scale_closed_form_err", e);
                }
                vensure!(
                    note(e, tol),
                    "merc-scale-closed-form",
                    "'{text}' at {at}: scale factor k={:.15} but a Mercator with k_0={} has k_0·a/(N·cos lat)={:.15} (relative difference {:.3e}, tolerance {:.3e})",
                    fc.k,
                    s.k_0,
                    kref,
                    e,
                    tol
                );
            }
        }
        if kind == Kind::Laea && fc.h * fc.dk + fc.k * fc.dh > cap {
            if record {
                rec.count(&format!("skipped_noise_dominated@{op}"), 1);
            }
        } else if kind == Kind::Laea {
            let tol = 2e-10 + fc.h * fc.dk + fc.k * fc.dh;
            let e = (fc.s - 1.0).abs();
            if record {
                rec.metric(&format!("equal_area_err@{aspect}"), e);
                rec.metric(&format!("equal_area_err_over_tol@{aspect}"), e / tol);
            }
            vensure!(
                note(e, tol),
                format!("equal-area@{aspect}"),
                "'{text}' does not preserve area at {at}: areal scale h·k·sin(theta') = {:.15e} (expected 1 +- {:.3e}); h={:.12e} k={:.12e}; Jacobian dx/dlon={:.9e} dy/dlon={:.9e} dx/dlat={:.9e} dy/dlat={:.9e} m/rad",
                fc.s,
                tol,
                fc.h,
                fc.k,
                j.xl,
                j.yl,
                j.xp,
                j.yp
            );
            vensure!(fc.det > 0.0, format!("orientation@{aspect}"), "'{text}' at {at}: orientation reversed, determinant {:.6e}", fc.det);
        }
        if kind == Kind::Webmerc {
            let xr = el.a * j.lon_in;
            let yr = el.a * j.lat.tan().asinh();
            let tol = 1e-8 * (el.a / 6_378_137.0) + 8.0 * EPS * el.a * (2.0 / j.lat.cos() + yr.abs() / el.a + j.lon_in.abs());
            let e = (j.x - xr).abs().max((j.y - yr).abs());
            if record {
                rec.metric("webmerc_closed_form_err_m", e);
                rec.metric("webmerc_closed_form_err_over_tol", e / tol);
            }
            vensure!(
                note(e, tol),
                "webmerc-closed-form",
                "'{text}' at {at}: ({:.9}, {:.9}) but the spherical Mercator of radius a={} gives ({:.9}, {:.9}); difference {:.3e} m, tolerance {:.3e} m",
                j.x,
                j.y,
                el.a,
                xr,
                yr,
                e,
                tol
            );
        }
        if record {
            rec.class(&aspect);
            if !inst.pres.plain() {
                rec.class(&format!("presented:{}", inst.pres.label()));
                rec.class(&format!("presented@{op}:{:+}turns", (j.lon_in - j.lon) / TAU));
                if inst.pres.cm_turns != 0 && cm_param(kind).is_some() {
                    rec.class(&format!("central-meridian{:+}turns@{op}", inst.pres.cm_turns));
                }
                let off = ((j.lon_in - s.lon_c) / TAU).abs();
                rec.class(if off > 1.5 { "longitude >1.5 turns from the central meridian" } else if off > 0.5 { "longitude 0.5..1.5 turns from the central meridian" } else { "longitude within half a turn of the central meridian" });
            } else if j.lon_in != j.lon {
                rec.class(&format!("across-antimeridian@{op}"));
            }
            if j.wrapped {
                rec.class(&format!("stencil-straddles-antimeridian@{op}"));
            }
            if kind == Kind::Omerc && s.aspect.contains("-alpha") && !s.aspect.contains("obtuse") {
                rec.class(&format!("{aspect}/{}", if s.lat_c.unwrap_or(0.0) < 0.0 { "latc<0" } else { "latc>=0" }));
            }
            rec.class(&format!("ellipsoid:{}", def.ell.class()));
            // non-trivial: off the symmetry lines and away from the centre
            let lat_c = s.lat_c.unwrap_or(0.0);
            let tenth = 0.1f64.to_radians();
            if dlon.abs() > tenth && (j.lat - lat_c).abs() > tenth && j.lat.abs() > tenth {
                rec.nontrivial(&(
                    aspect.clone(),
                    def.ell.class(),
                    (dlon.to_degrees() * 2.0).round() as i64,
                    (j.lat.to_degrees() * 2.0).round() as i64,
                    if inst.pres.plain() { None } else { Some((inst.pres.mode, inst.pres.turns, inst.pres.cm_turns)) },
                ));
            }
            let band = if j.lat.abs() > 89f64.to_radians() {
                "lat>89"
            } else if j.lat.abs() > 80f64.to_radians() {
                "lat 80..89"
            } else {
                "lat<80"
            };
            rec.class(band);
        }
    }

    // ---- lines of true scale, central meridian, origins
    let cl = claims(def, &s, &el, &case.pts);
    let scale_pts: Vec<(f64, f64, f64, f64)> = cl
        .iter()
        .filter_map(|c| match c {
            Claim::Scale { dlon, lat, .. } | Claim::NorthBearing { dlon, lat, .. } => {
                let lon = quant(s.lon_c + dlon);
                let lat = quant(*lat);
                let (hl, hp) = steps(&s, lon - s.lon_c, lat);
                Some((lon, lat, hl, hp))
            }
            _ => None,
        })
        .collect();
    let sj = inst.jacobians(&scale_pts)?;
    let mut si = 0;
    for c in &cl {
        match c {
            Claim::Scale { k, tag, .. } => {
                let j = &sj[si];
                si += 1;
                let fc = factors(j, &el, internal_magnitude(&s, &el, lcc_n, j));
                if fc.dh + fc.dk > 1e-8 * k {
                    if record {
                        rec.count(&format!("skipped_noise_dominated_claim@{op}"), 1);
                    }
                    continue;
                }
                let t0 = floor_conformal(kind, &el, j.lon - s.lon_c).max(1e-9);
                let tol = t0 + (fc.dh + fc.dk) / k;
                let e = ((fc.h - k).abs() / k).max((fc.k - k).abs() / k);
                if record {
                    rec.metric(&format!("true_scale_err@{op}:{tag}"), e);
                    rec.metric(&format!("true_scale_err_over_tol@{op}:{tag}"), e / tol);
                    rec.count(&format!("claim:{op}:{tag}"), 1);
                }
                vensure!(
                    note(e, tol),
                    format!("true-scale@{kop}:{tag}"),
                    "'{text}' at (lon {:.9}, lat {:.9}) deg: scale factors h={:.12} k={:.12} but the defining scale there is {:.12} ({tag}); relative difference {:.3e}, tolerance {:.3e}",
                    j.lon.to_degrees(),
                    j.lat.to_degrees(),
                    fc.h,
                    fc.k,
                    k,
                    e,
                    tol
                );
            }
            Claim::NorthBearing { bearing, tag, .. } => {
                let j = &sj[si];
                si += 1;
                let fc = factors(j, &el, internal_magnitude(&s, &el, lcc_n, j));
                if fc.dh > 1e-8 * fc.h {
                    continue;
                }
                let got = j.xp.atan2(j.yp);
                let e = vcore::refmath::wrap_pi(got - bearing).abs();
                // alpha = 90: lambda_0 comes from asin(G·tan(gamma_0)) with an argument of exactly 1, where
                // asin loses half of the digits (sqrt(2·eps) = 2e-8 rad)
                let ill = if s.aspect.ends_with("alpha90") || s.aspect.ends_with("alpha270") || s.aspect.ends_with("alpha-90") { 16.0 * EPS.sqrt() / j.lat.cos().max(1e-3) } else { 0.0 };
                let tol = 1e-9 + ill + fc.dh / fc.h;
                if record {
                    rec.metric(&format!("north_bearing_err_rad@{op}:{tag}"), e);
                    rec.count(&format!("claim:{op}:{tag}"), 1);
                }
                vensure!(
                    note(e, tol),
                    format!("north-bearing@{kop}:{tag}"),
                    "'{text}' at the centre (lon {:.9}, lat {:.9}) deg: the meridian has grid bearing {:.9} deg, but with azimuth of the initial line alpha and rectified-to-skew angle gamma_c it must be gamma_c - alpha = {:.9} deg (difference {:.3e} rad, tolerance {:.3e})",
                    j.lon.to_degrees(),
                    j.lat.to_degrees(),
                    got.to_degrees(),
                    bearing.to_degrees(),
                    e,
                    tol
                );
            }
            Claim::Maps { lon, lat, x, y, tol, tag } => {
                let pl = inst.present(*lon);
                let (gx, gy) = inst.at(pl, *lat, tag)?;
                let (mut x, mut tol) = (*x, *tol);
                if !inst.pres.plain() {
                    // merc / webmerc: linear in the raw longitude (see above)
                    if matches!(kind, Kind::Merc | Kind::Webmerc) {
                        x += el.a * s.k_0 * (pl - lon);
                        tol += 16.0 * EPS * (x.abs() + el.a * s.k_0 * pl.abs());
                    }
                    // rounding of the longitude difference times the local derivative (measured)
                    let h = 1.0 / 1_048_576.0;
                    let (ex, ey) = inst.at(pl + h, *lat, tag)?;
                    let (wx, wy) = inst.at(pl - h, *lat, tag)?;
                    tol += 2.0 * ((ex - wx).hypot(ey - wy) / (2.0 * h)) * inst.eps_lon(pl);
                }
                let (x, tol) = (&x, &tol);
                let e = (gx - x).abs().max((gy - y).abs());
                if record {
                    rec.metric(&format!("maps_err_m@{op}:{tag}"), e / (el.a / 6_378_137.0));
                    rec.metric(&format!("maps_err_over_tol@{op}:{tag}"), e / tol);
                    rec.count(&format!("claim:{op}:{tag}"), 1);
                }
                vensure!(
                    note(e, *tol),
                    format!("maps@{kop}:{tag}"),
                    "'{text}': (lon {:.12}, lat {:.12}) deg maps to ({:.9}, {:.9}) but {tag} requires ({:.9}, {:.9}); difference {:.3e} m, tolerance {:.3e} m",
                    pl.to_degrees(),
                    lat.to_degrees(),
                    gx,
                    gy,
                    x,
                    y,
                    e,
                    tol
                );
            }
        }
    }

    // ---- the library's own Jacobian / Factors
    if case.libjac {
        for j in jacs.iter().take(4) {
            libjac(&inst, &s, j, rec, record)?;
        }
    }
    Ok(())
}

/// `Jacobian::new(..).factors()` against the harness values (h, k, areal scale, sine of the
/// meridian/parallel angle, convergence, symmetric functions of the Tissot axes).
fn libjac(inst: &Inst, s: &Sem, j: &Jac, rec: &mut Rec, record: bool) -> CaseResult {
    let el = &inst.el;
    // the library differentiates with a fixed step of 1e-5 rad (second order): keep away from singular points
    if j.lat.abs() > 85f64.to_radians() {
        return Ok(());
    }
    if s.kind == Kind::Laea {
        let (d, _, _) = great_circle(1.0, 0.0, s.lat_c.unwrap_or(0.0), j.lon - s.lon_c, j.lat);
        if d > 150f64.to_radians() {
            return Ok(());
        }
    }
    let text = &inst.text;
    let at = Coor2D::raw(j.lon_in, j.lat);
    let r = guard(|| Jacobian::new(&inst.ctx, inst.op, [1f64.to_degrees(), 1.0], [false, false], inst.ellps, at).map(|jj| (jj.factors(), jj)));
    let (f, jj): (Factors, Jacobian) = match r {
        Err(p) => vfail!(format!("panic-jacobian@{}", p.sig()), "Jacobian::new for '{text}' at {at:?} panics: {} at {}:{}", p.msg, p.file, p.line),
        Ok(Err(e)) => vfail!("libjac-error", "Jacobian::new for '{text}' at {at:?} fails: {e:?}"),
        Ok(Ok(v)) => v,
    };
    let fc = factors(j, el, 0.0);
    // budget of the library's 2nd order differences with step 1e-5 rad
    let round = 4.0 * EPS * j.fmax.max(el.a) / 1e-5 * (1.0 / j.xl.hypot(j.yl) + 1.0 / j.xp.hypot(j.yp));
    let tol = 2e-7 + 4.0 * round;
    let op = inst.text.split(' ').next().unwrap_or("");
    let rel = |a: f64, b: f64| (a - b).abs() / b.abs().max(1e-300);
    let sin_t = fc.s / (fc.h * fc.k);
    let conv = -(j.xp.atan2(j.yp)).to_degrees();
    let checks: [(&str, f64, f64, f64); 9] = [
        ("latitude-degrees", jj.latitude, j.lat.to_degrees(), 1e-12 * 90.0),
        ("longitude-degrees", jj.longitude, j.lon_in.to_degrees(), 1e-12 * 360.0),
        ("meridional_scale", f.meridional_scale, fc.h, tol * fc.h),
        ("parallel_scale", f.parallel_scale, fc.k, tol * fc.k),
        ("areal_scale", f.areal_scale, fc.s, 2.0 * tol * fc.s.abs()),
        ("sin(meridian_parallel_angle)", f.meridian_parallel_angle.to_radians().sin(), sin_t.clamp(-1.0, 1.0), 4.0 * tol),
        ("meridian_convergence", vcore::refmath::wrap_pi((f.meridian_convergence - conv).to_radians()) + 1.0, 1.0, 4.0 * tol),
        ("tissot_semimajor*tissot_semiminor", f.tissot_semimajor * f.tissot_semiminor, fc.s, 4.0 * tol * fc.s.abs()),
        (
            "tissot_semimajor^2+tissot_semiminor^2",
            f.tissot_semimajor.powi(2) + f.tissot_semiminor.powi(2),
            fc.h * fc.h + fc.k * fc.k,
            4.0 * tol * (fc.h * fc.h + fc.k * fc.k),
        ),
    ];
    for (name, lib, mine, t) in checks {
        if record {
            rec.metric(&format!("libjac_err_over_tol:{name}"), (lib - mine).abs() / t);
            rec.metric(&format!("libjac_err_over_tol@{op}"), (lib - mine).abs() / t);
        }
        vensure!(
            note((lib - mine).abs(), t),
            format!("libjac-{name}@{op}"),
            "Jacobian::new(..).factors() for '{text}' at (lon {:.9}, lat {:.9}) deg: {name} = {lib:.12e}, harness finite differences give {mine:.12e} (relative difference {:.3e}, tolerance {:.3e})",
            j.lon.to_degrees(),
            j.lat.to_degrees(),
            rel(lib, mine),
            t / mine.abs().max(1e-300)
        );
    }
    // angular distortion: omega = 2 asin((a-b)/(a+b)); only meaningful where a != b
    if s.kind == Kind::Laea || s.kind == Kind::Webmerc {
        let a2b2 = fc.h * fc.h + fc.k * fc.k;
        let ap = (a2b2 + 2.0 * fc.s).max(0.0).sqrt();
        let bp = (a2b2 - 2.0 * fc.s).max(0.0).sqrt();
        let omega = 2.0 * (bp / ap).clamp(-1.0, 1.0).asin();
        let t = 1e-5 + 8.0 * tol.sqrt() * 1e-3;
        if record {
            rec.metric("libjac_err:angular_distortion", (f.angular_distortion - omega).abs());
        }
        vensure!(
            (f.angular_distortion - omega).abs() <= t,
            format!("libjac-angular_distortion@{op}"),
            "Jacobian::new(..).factors() for '{text}' at (lon {:.9}, lat {:.9}) deg: angular_distortion = {:.9e} rad, harness gives {:.9e} rad",
            j.lon.to_degrees(),
            j.lat.to_degrees(),
            f.angular_distortion,
            omega
        );
    }
    if record {
        rec.count("libjac_points", 1);
    }
    Ok(())
}

// ---- generators -------------------------------------------------------------------

fn named_ellipsoids() -> Vec<String> {
    geodesy::verif_hooks::ellipsoid_table().iter().map(|e| e.0.to_string()).collect()
}

/// Power of ten just below the size of the ellipsoid, divided by 1000: the unit in which false
/// origins are generated (1 km on the Earth), so that they stay in proportion to the coordinates.
fn origin_unit(e: &Ell) -> f64 {
    let a = match e {
        Ell::Custom { a, .. } => a.0,
        Ell::Named(n) => geodesy::verif_hooks::ellipsoid_table()
            .iter()
            .find(|t| t.0 == n)
            .and_then(|t| t.1.trim().parse::<f64>().ok())
            .unwrap_or(6_378_137.0),
    };
    10f64.powi(a.log10().floor() as i32 - 3)
}

fn ell_strategy(names: Vec<String>) -> BoxedStrategy<Ell> {
    let n = names.len();
    prop_oneof![
        5 => any::<u16>().prop_map(move |i| Ell::Named(names[pick(i, n)].clone())),
        // random size, flattening uniform in [1/1000, 1/150]
        3 => (0u32..6845, 150_000u32..1_000_000).prop_map(|(la, rf)| Ell::Custom {
            a: F((10f64.powf(la as f64 / 1000.0) * 1000.0).round() / 1000.0),
            rf: F(rf as f64 / 1000.0)
        }),
        // earth size, the most eccentric allowed
        1 => Just(Ell::Custom { a: F(6_378_137.0), rf: F(150.0) }),
        // nearly spherical: f log-uniform in [1e-7, 1e-3]
        1 => (3000u32..7000).prop_map(|l| Ell::Custom { a: F(6_371_000.0), rf: F((10f64.powf(l as f64 / 1000.0)).round()) }),
    ]
    .boxed()
}

/// unit interval with boundary classes
fn unit() -> impl Strategy<Value = f64> {
    prop_oneof![
        10 => (-1_000_000i32..=1_000_000).prop_map(|i| i as f64 / 1e6),
        1 => Just(1.0),
        1 => Just(-1.0),
        1 => Just(0.0),
        1 => (-1000i32..=1000).prop_map(|i| i as f64 / 1e9),
        1 => (0i32..=1000).prop_map(|i| 1.0 - i as f64 / 1e5),
        1 => (0i32..=1000).prop_map(|i| -1.0 + i as f64 / 1e5),
    ]
}

fn millideg(lo: i32, hi: i32) -> impl Strategy<Value = f64> {
    prop_oneof![
        3 => (lo * 1000..=hi * 1000).prop_map(|i| i as f64 / 1000.0),
        1 => (lo..=hi).prop_map(|i| i as f64),
    ]
}

fn k0_strategy() -> impl Strategy<Value = f64> {
    prop_oneof![
        2 => Just(1.0),
        1 => Just(0.9996),
        3 => (9000i32..=11000).prop_map(|i| i as f64 / 10000.0),
        1 => (5000i32..=20000).prop_map(|i| i as f64 / 10000.0),
    ]
}

/// false easting / northing in units of `origin_unit` (km on the Earth), up to 10 000 units
fn false_origin() -> impl Strategy<Value = (f64, f64)> {
    prop_oneof![
        2 => Just((0.0, 0.0)),
        3 => (-10_000i32..=10_000, -10_000i32..=10_000).prop_map(|(x, y)| (x as f64, y as f64)),
        1 => (-4_000_000i32..=4_000_000, -4_000_000i32..=4_000_000).prop_map(|(x, y)| (x as f64 / 4000.0, y as f64 / 4000.0)),
    ]
}

fn put_xy(d: Def, xy: (f64, f64)) -> Def {
    if xy == (0.0, 0.0) {
        d
    } else {
        let u = origin_unit(&d.ell);
        d.with("x_0", xy.0 * u).with("y_0", xy.1 * u)
    }
}
fn put_nd(d: Def, k: &str, v: f64, default: f64) -> Def {
    if v == default {
        d
    } else {
        d.with(k, v)
    }
}

/// Longitude difference from the centre at which the mapping has a seam, i.e. where the forward
/// function is discontinuous by construction (the cone of lcc and the conformal sphere of somerc
/// are cut along the antimeridian of the centre; the aposphere of omerc is cut 180 degrees from the
/// natural origin, which lies up to 90 degrees from the centre). No stencil may straddle it.
fn seam(kind: Kind) -> Option<f64> {
    match kind {
        Kind::Lcc | Kind::Somerc => Some(PI),
        Kind::Omerc => Some(88f64.to_radians()),
        _ => None,
    }
}

/// Map abstract (u, v) in [-1,1]^2 to a point of the documented domain, as (dlon, lat) radians.
fn domain_point(def: &Def, u: f64, v: f64) -> [F; 2] {
    let kind = def.kind();
    let latmax = LATMAX.to_radians();
    let p = match kind {
        Kind::Merc | Kind::Webmerc | Kind::Lcc => (u * 179.0f64.to_radians(), v * latmax),
        Kind::Tmerc | Kind::Utm => (u * 60f64.to_radians(), v * latmax),
        Kind::Btmerc | Kind::Butm => (u * 3f64.to_radians(), v * latmax),
        Kind::Laea | Kind::Omerc | Kind::Somerc => {
            let lat_c = def.or(if kind == Kind::Omerc { "latc" } else { "lat_0" }, 0.0).to_radians();
            let maxd = if kind == Kind::Laea { 170f64 } else { 45f64 }.to_radians();
            let (lon, lat) = great_circle_direct(1.0, 0.0, lat_c, u * PI, v.abs() * maxd);
            // stay clear of the seam of the mapping (see `seam`)
            let lonmax = seam(kind).map(|s| s - 1f64.to_radians()).unwrap_or(PI);
            (vcore::refmath::wrap_pi(lon).clamp(-lonmax, lonmax), lat.clamp(-latmax, latmax))
        }
    };
    [F(quant(p.0)), F(quant(p.1))]
}

fn merc_def(e: Ell, lon_0: f64, k: Option<f64>, ts: Option<f64>, lat_0: Option<f64>, xy: (f64, f64)) -> Def {
    let mut d = put_nd(Def::new("merc", e), "lon_0", lon_0, 0.0);
    match (k, ts) {
        (_, Some(ts)) if ts != 0.0 => d = d.with("lat_ts", ts),
        (Some(k), _) => d = put_nd(d, "k_0", k, 1.0),
        _ => {}
    }
    if let Some(l) = lat_0 {
        d = put_nd(d, "lat_0", l, 0.0);
    }
    put_xy(d, xy)
}

fn def_strategy(names: Vec<String>) -> BoxedStrategy<Def> {
    let ell = ell_strategy(names);
    // central meridians: anywhere, and a class within a few degrees of the antimeridian (both signs,
    // and exactly 180 / -180) whose domain straddles +-180 degrees
    let lon = || prop_oneof![1 => Just(0.0), 5 => millideg(-180, 180), 2 => antimeridian()];
    let kopt = || prop_oneof![Just(None), k0_strategy().prop_map(Some)];
    let tsopt = || prop_oneof![2 => Just(None), 1 => millideg(-85, 85).prop_map(Some)];
    let lat0opt = || prop_oneof![3 => Just(None), 1 => millideg(-60, 60).prop_map(Some)];
    prop_oneof![
        3 => (ell.clone(), lon(), kopt(), tsopt(), lat0opt(), false_origin()).prop_map(|(e, lon_0, k, ts, lat_0, xy)| merc_def(e, lon_0, k, ts, lat_0, xy)),
        1 => ell.clone().prop_map(|e| Def::new("webmerc", e)),
        3 => (ell.clone(), any::<bool>(), prop_oneof![1 => Just(0.0), 2 => millideg(-89, 89), 1 => Just(90.0), 1 => Just(-90.0)], lon(), k0_strategy(), false_origin()).prop_map(|(e, bow, lat_0, lon_0, k, xy)| {
            put_xy(put_nd(put_nd(put_nd(Def::new(if bow { "btmerc" } else { "tmerc" }, e), "lat_0", lat_0, 0.0), "lon_0", lon_0, 0.0), "k_0", k, 1.0), xy)
        }),
        2 => (ell.clone(), prop_oneof![3 => 1u8..=60, 1 => Just(1u8), 1 => Just(60u8)], any::<bool>(), any::<bool>()).prop_map(|(e, z, south, bow)| {
            let d = Def::new(if bow { "butm" } else { "utm" }, e).with("zone", z as f64);
            if south { d.flag("south") } else { d }
        }),
        4 => (ell.clone(), lcc_parallels(), prop_oneof![2 => Just(None), 3 => millideg(-80, 80).prop_map(Some), 1 => Just(Some(91.0))], lon(), k0_strategy(), false_origin())
            .prop_map(|(e, (p1, p2), lat_0, lon_0, k, xy)| {
                let mut d = Def::new("lcc", e).with("lat_1", p1);
                if let Some(p2) = p2 { d = d.with("lat_2", p2); }
                // 91 stands for "the pole at the apex of the cone"
                if let Some(l) = lat_0 { d = d.with("lat_0", if l == 91.0 { 90f64.copysign(p1 + p2.unwrap_or(p1)) } else { l }); }
                put_xy(put_nd(put_nd(d, "lon_0", lon_0, 0.0), "k_0", k, 1.0), xy)
            }),
        4 => (ell.clone(), prop_oneof![1 => Just(90.0), 1 => Just(-90.0), 1 => Just(0.0), 4 => millideg(1, 89), 4 => millideg(-89, -1), 1 => (1i32..1000).prop_map(|i| i as f64 / 1000.0), 1 => (1i32..1000).prop_map(|i| 90.0 - i as f64 / 1000.0)], lon(), false_origin())
            .prop_map(|(e, lat_0, lon_0, xy)| put_xy(put_nd(Def::new("laea", e).with("lat_0", lat_0), "lon_0", lon_0, 0.0), xy)),
        5 => (ell.clone(), omerc_params(), lon(), k0_strategy(), false_origin()).prop_map(|(e, (latc, alpha, gamma, variant), lonc, k, xy)| omerc_def(e, latc, alpha, gamma, variant, lonc, k, xy)),
        3 => (ell, prop_oneof![1 => Just(0.0), 6 => millideg(-80, 80), 2 => millideg(-89, 89)], lon(), k0_strategy(), false_origin())
            .prop_map(|(e, lat_0, lon_0, k, xy)| put_xy(put_nd(put_nd(put_nd(Def::new("somerc", e), "lat_0", lat_0, 0.0), "lon_0", lon_0, 0.0), "k_0", k, 1.0), xy)),
    ]
    .boxed()
}

/// central meridians at and near the antimeridian
fn antimeridian() -> impl Strategy<Value = f64> {
    prop_oneof![
        1 => Just(180.0),
        1 => Just(-180.0),
        2 => (1i32..=5000).prop_map(|i| 180.0 - i as f64 / 1000.0),
        2 => (1i32..=5000).prop_map(|i| -180.0 + i as f64 / 1000.0),
        1 => (1i32..=12).prop_map(|i| 180.0 - i as f64 / 4.0),
        1 => (1i32..=12).prop_map(|i| -180.0 + i as f64 / 4.0),
    ]
}

#[allow(clippy::too_many_arguments)]
fn omerc_def(e: Ell, latc: f64, alpha: f64, gamma: Option<f64>, variant: bool, lonc: f64, k: f64, xy: (f64, f64)) -> Def {
    let mut d = Def::new("omerc", e).with("latc", latc).with("alpha", alpha);
    d = put_nd(d, "lonc", lonc, 0.0);
    if let Some(g) = gamma {
        d = d.with("gamma_c", g);
    }
    if variant {
        d = d.flag("variant");
    }
    put_xy(put_nd(d, "k_0", k, 1.0), xy)
}

/// standard parallels of lcc: one or two, either hemisphere, |lat_1 + lat_2| clearly non-zero
fn lcc_parallels() -> impl Strategy<Value = (f64, Option<f64>)> {
    prop_oneof![
        1 => (prop_oneof![(1000i32..3000).prop_map(|i| i as f64 / 1000.0), (88_000i32..89_900).prop_map(|i| i as f64 / 1000.0)], any::<bool>()).prop_map(|(p, s)| (if s { -p } else { p }, None)),
        2 => (millideg(3, 88), any::<bool>()).prop_map(|(p, s)| (if s { -p } else { p }, None)),
        3 => (millideg(3, 85), millideg(1, 40), any::<bool>(), any::<bool>()).prop_map(|(p, d, s, swap)| {
            // two parallels in the same hemisphere
            let q = (p + d).min(88.0);
            let (a, b) = if swap { (q, p) } else { (p, q) };
            if s { (-a, Some(-b)) } else { (a, Some(b)) }
        }),
        1 => (millideg(10, 60), millideg(1, 6), any::<bool>()).prop_map(|(p, d, s)| {
            // parallels on both sides of the equator, cone constant well away from zero
            let q = -(p - d - 3.0).max(0.0) / 4.0;
            if s { (-p, Some(-q)) } else { (p, Some(q)) }
        }),
        1 => (millideg(3, 88), any::<bool>()).prop_map(|(p, s)| { let p = if s { -p } else { p }; (p, Some(p)) }),
    ]
}

/// (latc, alpha, gamma_c, variant): azimuths of every quadrant, 90 exactly, negative ones
fn omerc_params() -> impl Strategy<Value = (f64, f64, Option<f64>, bool)> {
    let alpha = prop_oneof![6 => millideg(5, 85), 2 => millideg(-85, -5), 1 => millideg(275, 355), 2 => Just(90.0), 2 => Just(-90.0), 2 => Just(270.0), 1 => millideg(95, 175), 1 => millideg(185, 265)];
    (
        prop_oneof![4 => millideg(1, 80), 4 => millideg(-80, -1), 1 => Just(0.0), 2 => millideg(-89, 89)],
        alpha,
        prop_oneof![1 => Just(0u8), 1 => Just(1u8), 2 => Just(2u8)],
        millideg(-180, 180),
        any::<bool>(),
    )
        .prop_map(|(latc, alpha, gmode, g, variant)| {
            let gamma = match gmode {
                0 => None,        // Laborde approximation: gamma_c = alpha, variant B
                1 => Some(alpha), // the common choice
                _ => Some(g),
            };
            (latc, alpha, gamma, variant)
        })
}

fn case_strategy(names: Vec<String>, npts: usize, libjac_weight: f64) -> impl Strategy<Value = Case> {
    (def_strategy(names), prop::collection::vec((unit(), unit()), 1..=npts), prop::bool::weighted(libjac_weight)).prop_map(|(def, uv, libjac)| {
        let pts = uv.iter().map(|(u, v)| domain_point(&def, *u, *v)).collect();
        Case { def, pts, libjac, pres: Pres::default() }
    })
}

/// every presentation mode x 0, +-1, +-2, +-3 turns x central meridian as written or +-1, +-2, +-3 turns away
fn pres_strategy() -> impl Strategy<Value = Pres> {
    (0u8..=4, prop_oneof![1 => Just(0i8), 6 => -3i8..=3], prop_oneof![2 => Just(0i8), 1 => -3i8..=3]).prop_map(|(mode, turns, cm_turns)| {
        // mode 0 (stencil points wrapped one by one) is the presentation of the other sections: it has no turns
        let mode = if mode == 0 && turns != 0 { 1 } else { mode };
        Pres { mode, turns, cm_turns }
    })
}

fn presented_case_strategy(names: Vec<String>, npts: usize, libjac_weight: f64) -> impl Strategy<Value = Case> {
    (case_strategy(names, npts, libjac_weight), pres_strategy()).prop_map(|(mut c, pres)| {
        c.pres = pres;
        c
    })
}

// ---- the lattice ------------------------------------------------------------------

/// Every aspect / parameterisation class of every projection, with ordinary parameter values.
fn canonical_aspects(e: &Ell) -> Vec<Def> {
    let d = |op: &str| Def::new(op, e.clone());
    let mut v = vec![
        d("merc"),
        d("merc").with("k_0", 0.9),
        d("merc").with("lat_ts", 56.0),
        d("merc").with("lat_ts", -33.5),
        d("merc").with("lon_0", 9.0).with("k_0", 0.9996).with("x_0", 500_000.0).with("y_0", -2_000_000.0),
        d("merc").with("lon_0", -150.0).with("lat_ts", 42.0).with("x_0", 4_000_000.0).with("y_0", 1_000_000.0),
        d("merc").with("lon_0", 9.0).with("lat_0", 54.0).with("lat_ts", 56.0),
        d("webmerc"),
        d("tmerc"),
        d("tmerc").with("lon_0", 9.0).with("k_0", 0.9996).with("x_0", 500_000.0),
        d("tmerc").with("lat_0", 49.0).with("lon_0", -2.0).with("k_0", 0.9996012717).with("x_0", 400_000.0).with("y_0", -100_000.0),
        d("tmerc").with("lat_0", -37.0).with("lon_0", 145.0).with("k_0", 1.0).with("x_0", 2_500_000.0).with("y_0", 2_500_000.0),
        d("btmerc"),
        d("btmerc").with("lon_0", 9.0).with("k_0", 0.9996).with("x_0", 500_000.0),
        d("btmerc").with("lat_0", 49.0).with("lon_0", -2.0).with("k_0", 0.9996012717).with("x_0", 400_000.0).with("y_0", -100_000.0),
        d("utm").with("zone", 32.0),
        d("utm").with("zone", 1.0).flag("south"),
        d("utm").with("zone", 60.0),
        d("butm").with("zone", 32.0),
        d("butm").with("zone", 23.0).flag("south"),
        d("lcc").with("lat_1", 57.0).with("lon_0", 12.0),
        d("lcc").with("lat_1", -35.0).with("lon_0", 150.0).with("k_0", 0.9993),
        d("lcc").with("lat_1", 33.0).with("lat_2", 45.0).with("lon_0", -100.0),
        d("lcc").with("lat_1", 33.0).with("lat_2", 45.0).with("lat_0", 35.0).with("lon_0", 10.0).with("x_0", 12345.0).with("y_0", 67890.0).with("k_0", 0.99),
        d("lcc").with("lat_1", -18.0).with("lat_2", -36.0).with("lat_0", -27.0).with("lon_0", 134.0),
        d("lcc").with("lat_1", 49.0).with("lat_2", 44.0).with("lat_0", 46.5).with("lon_0", 3.0).with("x_0", 700_000.0).with("y_0", 6_600_000.0),
        d("lcc").with("lat_1", 60.0).with("lat_2", -10.0).with("lat_0", 20.0),
        d("lcc").with("lat_1", 85.0).with("lat_0", 90.0),
        d("laea").with("lat_0", 52.0).with("lon_0", 10.0).with("x_0", 4_321_000.0).with("y_0", 3_210_000.0),
        d("laea").with("lat_0", -30.0).with("lon_0", 135.0),
        d("laea").with("lat_0", 90.0),
        d("laea").with("lat_0", 90.0).with("lon_0", -150.0).with("x_0", 2_000_000.0).with("y_0", 2_000_000.0),
        d("laea").with("lat_0", 5.0),
        d("laea").with("lat_0", -90.0),
        d("laea").with("lat_0", -90.0).with("lon_0", 30.0).with("x_0", 2_000_000.0).with("y_0", 2_000_000.0),
        d("laea").with("lat_0", 0.0),
        d("laea").with("lat_0", 0.0).with("lon_0", 20.0).with("x_0", 1_000_000.0).with("y_0", 1_000_000.0),
        d("laea").with("lat_0", 89.0),
        d("omerc").with("latc", 4.0).with("lonc", 115.0).with("alpha", 53.3158204722).with("gamma_c", 53.1301023611).with("k_0", 0.99984).with("x_0", 590_476.87).with("y_0", 442_857.65).flag("variant"),
        d("omerc").with("latc", 4.0).with("lonc", 115.0).with("alpha", 53.3158204722).with("gamma_c", 53.1301023611).with("k_0", 0.99984),
        d("omerc").with("latc", 57.0).with("lonc", -133.667).with("alpha", 36.87).with("gamma_c", 36.87).with("k_0", 0.9999).with("x_0", 5_000_000.0).with("y_0", -5_000_000.0).flag("variant"),
        d("omerc").with("latc", -18.9).with("lonc", 46.437).with("alpha", 18.9).with("k_0", 0.9995).with("x_0", 400_000.0).with("y_0", 800_000.0),
        d("omerc").with("latc", -45.0).with("lonc", 170.0).with("alpha", 60.0).with("gamma_c", 10.0),
        d("omerc").with("latc", 36.0).with("lonc", -117.0).with("alpha", 323.13).with("gamma_c", 323.13).with("k_0", 0.9999).with("x_0", 200_000.0).with("y_0", 500_000.0).flag("variant"),
        d("omerc").with("latc", 47.14).with("lonc", 19.05).with("alpha", 89.5).with("gamma_c", 90.0).with("k_0", 0.99993).with("x_0", 650_000.0).with("y_0", 200_000.0).flag("variant"),
        d("omerc").with("latc", 47.14439372222).with("lonc", 19.04857177778).with("alpha", 90.0).with("gamma_c", 90.0).with("k_0", 0.99993).with("x_0", 650_000.0).with("y_0", 200_000.0).flag("variant"),
        d("omerc").with("latc", 46.9524055555556).with("lonc", 7.43958333333333).with("alpha", 90.0).with("gamma_c", 90.0).with("x_0", 600_000.0).with("y_0", 200_000.0).flag("variant"),
        d("omerc").with("latc", -33.0).with("lonc", 151.0).with("alpha", 90.0).with("gamma_c", 90.0),
        d("omerc").with("latc", 40.0).with("lonc", 10.0).with("alpha", 120.0).with("gamma_c", 120.0).with("x_0", 1000.0).with("y_0", 2000.0).flag("variant"),
        d("omerc").with("latc", -25.0).with("lonc", -60.0).with("alpha", 200.0).with("gamma_c", 200.0),
        d("omerc").with("latc", 47.0).with("lonc", 19.0).with("alpha", 90.0).with("gamma_c", 90.0),
        d("omerc").with("latc", -41.0).with("lonc", 173.0).with("alpha", 90.0).with("gamma_c", 90.0).with("x_0", 300_000.0).with("y_0", 700_000.0).flag("variant"),
        d("omerc").with("latc", 52.0).with("lonc", 5.0).with("alpha", 90.0).with("k_0", 0.9999),
        d("omerc").with("latc", -12.0).with("lonc", -70.0).with("alpha", 90.0).with("x_0", 500_000.0).with("y_0", 1_000_000.0),
        d("omerc").with("latc", 35.0).with("lonc", 25.0).with("alpha", -90.0).with("gamma_c", -90.0),
        d("omerc").with("latc", -35.0).with("lonc", 25.0).with("alpha", -90.0).with("gamma_c", -90.0),
        d("omerc").with("latc", 47.14439372222).with("lonc", 19.04857177778).with("alpha", -90.0).with("gamma_c", -90.0).with("k_0", 0.99993).with("x_0", 650_000.0).with("y_0", 200_000.0).flag("variant"),
        d("omerc").with("latc", -22.0).with("lonc", 133.0).with("alpha", -90.0).with("gamma_c", -75.0).with("x_0", 100_000.0).with("y_0", 100_000.0).flag("variant"),
        d("omerc").with("latc", 18.606).with("alpha", -90.0),
        d("omerc").with("latc", -61.01).with("lonc", -45.0).with("alpha", -90.0).with("k_0", 0.9996).with("x_0", 1_000_000.0).with("y_0", 2_000_000.0),
        d("omerc").with("latc", 60.0).with("lonc", 15.0).with("alpha", 270.0).with("gamma_c", 270.0),
        d("omerc").with("latc", -8.0).with("lonc", 115.0).with("alpha", 270.0).with("gamma_c", 270.0),
        d("omerc").with("latc", 28.0).with("lonc", -81.0).with("alpha", 270.0).with("gamma_c", 270.0).with("x_0", 200_000.0).with("y_0", 0.0).flag("variant"),
        d("omerc").with("latc", -45.0).with("lonc", 170.0).with("alpha", 270.0).with("gamma_c", 250.0).with("k_0", 1.0001).flag("variant"),
        d("omerc").with("latc", 3.0).with("lonc", 102.0).with("alpha", 270.0),
        d("omerc").with("latc", -75.0).with("lonc", 0.0).with("alpha", 270.0).with("x_0", 50_000.0).with("y_0", 50_000.0),
        d("somerc"),
        d("somerc").with("lat_0", 46.9524055555556).with("lon_0", 7.43958333333333).with("x_0", 2_600_000.0).with("y_0", 1_200_000.0),
        d("somerc").with("lat_0", -41.0).with("lon_0", 173.0).with("k_0", 0.9996),
        d("somerc").with("lat_0", 75.0).with("lon_0", -40.0).with("k_0", 1.02),
    ];
    // the antimeridian class: domains that straddle +-180 degrees
    v.extend([
        d("merc").with("lon_0", 180.0).with("k_0", 0.9996),
        d("merc").with("lon_0", -179.5).with("lat_ts", 30.0).with("x_0", 1_000_000.0).with("y_0", 0.0),
        d("tmerc").with("lon_0", 179.5).with("k_0", 0.9996).with("x_0", 500_000.0),
        d("tmerc").with("lon_0", -180.0).with("lat_0", -17.0).with("x_0", 2_000_000.0).with("y_0", 4_000_000.0),
        d("btmerc").with("lon_0", 180.0),
        d("btmerc").with("lon_0", 178.75).with("k_0", 0.9996).with("x_0", 500_000.0),
        d("btmerc").with("lon_0", -178.5).with("lat_0", 52.0).with("k_0", 0.9999).with("x_0", 300_000.0).with("y_0", -200_000.0),
        d("btmerc").with("lon_0", -180.0).with("k_0", 1.0),
        d("utm").with("zone", 60.0).flag("south"),
        d("butm").with("zone", 1.0),
        d("butm").with("zone", 60.0),
        d("butm").with("zone", 60.0).flag("south"),
        d("lcc").with("lat_1", 65.0).with("lat_2", 55.0).with("lat_0", 60.0).with("lon_0", 180.0),
        d("lcc").with("lat_1", -17.0).with("lon_0", -179.0).with("x_0", 2_000_000.0).with("y_0", 4_000_000.0),
        d("laea").with("lat_0", 65.0).with("lon_0", 180.0),
        d("laea").with("lat_0", -17.0).with("lon_0", -178.0).with("x_0", 1_000_000.0).with("y_0", 1_000_000.0),
        d("laea").with("lat_0", 0.0).with("lon_0", -180.0),
        d("omerc").with("latc", 52.0).with("lonc", 179.9).with("alpha", 35.0).with("gamma_c", 35.0).flag("variant"),
        d("omerc").with("latc", -17.0).with("lonc", -180.0).with("alpha", 70.0).with("gamma_c", 70.0),
        d("omerc").with("latc", 60.0).with("lonc", 180.0).with("alpha", 90.0).with("gamma_c", 90.0).with("x_0", 500_000.0).with("y_0", 500_000.0).flag("variant"),
        d("somerc").with("lat_0", 52.0).with("lon_0", 179.0),
        d("somerc").with("lat_0", -44.0).with("lon_0", -180.0).with("k_0", 0.9996).with("x_0", 400_000.0).with("y_0", 800_000.0),
    ]);
    // false origins in proportion to the size of the ellipsoid (factor 1 on the Earth)
    let f = origin_unit(e) / 1000.0;
    if f != 1.0 {
        for d in v.iter_mut() {
            for (k, val) in d.num.iter_mut() {
                if k == "x_0" || k == "y_0" {
                    val.0 *= f;
                }
            }
        }
    }
    v
}

fn lattice_axis(n: usize) -> Vec<f64> {
    // symmetric about 0, includes both ends; denser towards the ends
    let mut v: Vec<f64> = (0..n).map(|i| -1.0 + 2.0 * i as f64 / (n - 1) as f64).collect();
    for e in [0.99, 0.999] {
        v.push(e);
        v.push(-e);
    }
    v.sort_by(|a, b| a.partial_cmp(b).unwrap());
    v
}

// ---- main -------------------------------------------------------------------------

fn selftest() {
    // the finite-difference machinery on a function with known derivative
    let h = quant(4e-3);
    let x0 = quant(0.7);
    let f = |x: f64| (3.0 * x).sin() * 1e7;
    let d = (45.0 * (f(x0 + h) - f(x0 - h)) - 9.0 * (f(x0 + 2.0 * h) - f(x0 - 2.0 * h)) + (f(x0 + 3.0 * h) - f(x0 - 3.0 * h))) / (60.0 * h);
    let exact = 3.0 * (3.0 * x0).cos() * 1e7;
    assert!(((d - exact) / exact).abs() < 1e-11, "stencil self test: {d} vs {exact}");
    // reference radii: M·N product and meridian arc against the closed form on a sphere
    let s = El::new(2.0, 0.0);
    assert!((s.m(0.3) - 2.0).abs() < 1e-15 && (s.n(1.0) - 2.0).abs() < 1e-15);
    assert!((integrate(|p| s.m(p), 0.2, 1.1, 12) - 1.8).abs() < 1e-14);
    // transverse Mercator on the sphere in closed form is conformal under this machinery
    let e = El::new(1.0, 0.0);
    let tm = |lon: f64, lat: f64| ((lat.cos() * lon.sin()).atanh(), lat.tan().atan2(lon.cos()));
    let (lon, lat, h) = (quant(0.4), quant(0.9), quant(2e-3));
    let dd = |g: &dyn Fn(f64) -> f64| (45.0 * (g(1.0) - g(-1.0)) - 9.0 * (g(2.0) - g(-2.0)) + (g(3.0) - g(-3.0))) / (60.0 * h);
    let j = Jac {
        lon,
        lon_in: lon,
        wrapped: false,
        lat,
        x: 0.0,
        y: 0.0,
        xl: dd(&|k| tm(lon + k * h, lat).0),
        yl: dd(&|k| tm(lon + k * h, lat).1),
        xp: dd(&|k| tm(lon, lat + k * h).0),
        yp: dd(&|k| tm(lon, lat + k * h).1),
        hl: h,
        hp: h,
        fmax: 1.0,
        eps_lon: 0.0,
    };
    let fc = factors(&j, &e, 0.0);
    assert!((fc.h - fc.k).abs() / fc.k < 1e-11 && fc.cos_t.abs() < 1e-11 && fc.det > 0.0, "closed form TM not conformal under the harness: {fc:?}");
}

fn main() {
    let mut run = Run::init("C05");
    selftest();
    run.track_inflight(false);
    run.assume("the geometry is judged on the ellipsoid (a, f) that Ellipsoid::named returns for the given name or 'a,rf' text; correctness of the table values is C06's subject");
    run.assume("merc: lat_0 is given no meaning by the property (only conformality is required when it is present); origin claim (lon_0, 0) -> (x_0, y_0) only when lat_0 is absent; lat_ts and k_0 are not combined (documented as alternatives)");
    run.assume("omerc: false origin at the projection centre is claimed for variant B and the Laborde form only (variant A places it at the natural origin); lcc: origin claim needs an explicit lat_0 or a single standard parallel");
    run.assume("domains: |lat| <= 89.9; tmerc/utm within 60 deg and btmerc/butm within 3 deg of the central meridian; laea within 170 deg of the centre; omerc/somerc within 45 deg of the centre; no finite-difference stencil across the seam of lcc/somerc (antimeridian of the centre) or within 92 deg of the antimeridian of the omerc centre (seam of the aposphere)");
    run.assume("longitudes are handed to the library inside [-180, 180] deg (a domain around a central meridian near the antimeridian straddles +-180); the points of the longitude stencil are wrapped one by one as well, except for merc/webmerc, which are linear in the raw longitude and documented without wrapping: there the stencil continues across +-180");
    run.assume("sections presentation*: a geographic point may be handed over with any raw longitude (the shared normalisation is documented for arbitrary angles; tmerc, utm and laea are periodic through sin/cos); merc and webmerc are documented without wrapping and are linear in the raw longitude: for them the easting is required to move by a·k_0 per radian of raw longitude, all differential claims unchanged; a central meridian outside [-180, 180] deg is accepted by every operator that has one (nothing in the documentation restricts it)");
    run.assume("omerc: the meridian through the centre has the grid bearing gamma_c - alpha (u axis tangent to the initial line of azimuth alpha; IOGP 373-7-2); laea: unit scale in all directions at the centre (azimuthal)");

    let names = named_ellipsoids();
    let thorough = run.is_thorough();

    // 1. lattice: every aspect x every built-in ellipsoid x lattice rows
    {
        let ells: Vec<Ell> = names.iter().map(|n| Ell::Named(n.clone())).collect();
        let n_asp = canonical_aspects(&ells[0]).len();
        let rows = lattice_axis(if thorough { 241 } else { 49 });
        let cols = lattice_axis(if thorough { 97 } else { 31 });
        let (nr, ne) = (rows.len(), ells.len());
        run.sweep(
            "lattice",
            "every aspect/parameterisation class (canonical parameter values) x all built-in ellipsoids x a lattice over the documented domain (rows of constant latitude resp. distance from the centre, ends at the domain limit); non-trivial = off the central meridian, the equator and the parallel of the centre by > 0.1 deg; distinct by (projection/aspect, ellipsoid, half-degree cell)",
            n_asp * ne * nr,
            move |i| {
                let e = &ells[i % ne];
                let a = (i / ne) % n_asp;
                let r = i / (ne * n_asp);
                let def = canonical_aspects(e)[a].clone();
                let pts = cols.iter().map(|u| domain_point(&def, *u, rows[r])).collect();
                Case { def, pts, libjac: r % 6 == 2, pres: Pres::default() }
            },
            check,
        );
    }

    // 2. random parameterisations x ellipsoids (built-in and random) x random points
    {
        let n = run.scale(220_000, 6_500_000);
        let nm = names.clone();
        run.section(
            "random",
            "random parameter sets of every projection (centre, standard parallels in both hemispheres, k_0, lat_ts, central meridians at and within 5 deg of the antimeridian, azimuth of every quadrant incl. 90, -90 and 270 exactly with both signs of latc and variants A/B/Laborde, rectified-grid angle, all aspects of laea, false origins) x built-in or random ellipsoid (f in [1e-7, 1/150], a in [1, 7e6]) x up to 12 points of the domain incl. its edges; lines of true scale and origins checked for every case",
            n,
            move || case_strategy(nm.clone(), 12, 0.15),
            check,
        );
    }

    // 3. presentation of longitudes: lattice of every aspect x every presentation
    {
        let e = Ell::Named("GRS80".into());
        let e2 = Ell::Custom { a: F(6_378_137.0), rf: F(150.0) };
        let n_asp = canonical_aspects(&e).len();
        // (mode, turns): every range x every turn count; then the central meridian turns
        let mut pres: Vec<Pres> = vec![];
        for cm_turns in [0i8, -3, -2, -1, 1, 2, 3] {
            for mode in 1u8..=4 {
                for turns in -3i8..=3 {
                    pres.push(Pres { mode, turns, cm_turns });
                }
            }
            if cm_turns != 0 {
                pres.push(Pres { mode: 0, turns: 0, cm_turns });
            }
        }
        let rows = lattice_axis(if thorough { 13 } else { 3 });
        let cols = lattice_axis(if thorough { 13 } else { 5 });
        let (np, nr) = (pres.len(), rows.len());
        run.sweep(
            "presentation-lattice",
            "every aspect/parameterisation class (canonical parameter values, GRS80 or a = 6378137, 1/f = 150 in turn) x every presentation of the longitudes (as computed from the central meridian, reduced to [-180,180), (-180,180] or [0,360), each moved by 0, +-1, +-2, +-3 whole turns, all 13 stencil points alike with exact abscissae) x the central meridian as written or +-1, +-2, +-3 turns away (where the operator has one) x a coarse lattice over the domain; all claims of the other sections re-judged on the presented stencils (origins and central-meridian northings at the presented centre), plus the presentation differential: same image as through the canonical presentation (merc/webmerc: easting moves by a·k_0 per radian of raw longitude, linear by construction); non-trivial as in the lattice",
            n_asp * np * nr,
            move |i| {
                let a = i % n_asp;
                let p = (i / n_asp) % np;
                let r = i / (n_asp * np);
                let ell = if (a + p + r) % 2 == 0 { &e } else { &e2 };
                let def = canonical_aspects(ell)[a].clone();
                let pts = cols.iter().map(|u| domain_point(&def, *u, rows[r])).collect();
                Case { def, pts, libjac: r == 1 && p % 5 == 0, pres: pres[p] }
            },
            check,
        );
    }

    // 4. presentation of longitudes: random parameterisations
    {
        let n = run.scale(25_000, 1_000_000);
        let nm = names.clone();
        run.section(
            "presentation",
            "as section random (random parameter sets of every projection x built-in or random ellipsoid x up to 6 points of the domain), each under a random presentation of the longitudes: range mode (canonical, as computed, [-180,180), (-180,180], [0,360)) x 0, +-1, +-2, +-3 whole turns x central meridian as written or +-1, +-2, +-3 turns away; conformality / equal area / closed form, lines of true scale, central-meridian northing, origins and the library's Jacobian re-judged as presented, plus the presentation differential against the canonical presentation",
            n,
            move || presented_case_strategy(nm.clone(), 6, 0.15),
            check,
        );
    }

    run.finish("finite-difference Jacobians of the forward projections compared with the defining differential identities (conformal: h=k, orthogonality, orientation; laea: unit areal scale; webmerc: closed form) and with the stated lines of true scale, central-meridian northing and origins, over all aspects, all built-in and random ellipsoids, lattices and random points of the documented domains; the same claims and the identity of the image for the points presented with unreduced longitudes (other ranges, up to +-3 whole turns away, central meridian given outside [-180, 180])");
}
