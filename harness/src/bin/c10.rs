//! C10 — failures are visible: honest counts, NaN for failed tuples, untouched axes kept.
//!
//! Oracle: invariants on (count, before, after) of `Context::apply`, evaluated per tuple with
//! singleton application and per batch, for every built-in operator in each supported
//! direction, with tuples generated inside, at the edge of and far outside the documented /
//! declared domain, NaN in any subset of the four elements; plus pipelines containing failing
//! steps (count = minimum over the steps, stack underflow) and unsupported inverses; plus the
//! singular points of the 3-D operators' own formulas (molodensky: h = -M(lat), -N(lat); cart: the
//! centre, the axis, tiny radii; geodesic: coincident / antipodal pairs), constructed exactly.
//!
//! The per-operator facts (which elements are written, which output element depends on which
//! input element, where the declared domain limits are) were transcribed from
//! `/repo/src/inner_op/<op>.rs` and `ruminations/002-rumination.md`; see `traits()` and the
//! `gen_*` functions. Where a dependency is uncertain the clause is left out (see `run.assume`).

use geodesy::prelude::*;
use proptest::prelude::*;
use serde::{Deserialize, Serialize};
use std::f64::consts::{FRAC_PI_2, PI};
use vcore::geo::*;
use vcore::gridctx::{gravsoft_text, GridCtx};
use vcore::refmath::El;
use vcore::*;

// ---- failure keys registered as findings (see /verif/known_findings.d/C10.json) ----------
// A case may contain several violations; those with a registered key are reported only when
// the case contains no other violation, so that a registered defect never hides a new one
// (the classes stay in the generators: once a finding is fixed its class is checked again
// without any change here; counter `violations_of_registered_findings_deferred`).
const REGISTERED: &[&str] = &[
    "uncounted-not-nan@cart-inv",
    "uncounted-not-nan@geodesic-inv-reversible",
    "uncounted-not-nan@gridshift-inv",
    "nan-not-propagated@gridshift-inv",
    "far-outside-counted@laea-inv-polar",
    "interior-not-finite@laea-fwd-polar",
    "interior-not-finite@laea-inv-oblique-pole",
    "null-grid-outside-not-passed@deflection-fwd",
    "nan-not-propagated@cart-inv",
    "underflow-not-nan@stack-swap",
    "counted-but-nan@molodensky-singular-point",
];

// ---- basic types -------------------------------------------------------------------------

#[derive(Clone, Copy, Debug, Serialize, Deserialize, PartialEq, Eq, Hash)]
enum Cls {
    /// conservatively inside the documented domain: must be transformed and counted
    Interior,
    /// a geographic pole that lies inside the documented domain (exactly, or within 1e-11 rad):
    /// same clauses as `Interior`, separate failure keys (suffix `-pole`)
    Pole,
    /// clearly beyond a declared domain limit: must be NaN-marked and not counted
    Far,
    /// outside grid coverage of an operator with `@null`: must be counted and stay NaN-free
    NullPass,
    /// close to a limit / convergence not guaranteed: only the weak clauses apply
    Edge,
    /// anywhere: only the weak clauses apply
    Any,
}

const SPACINGS: [f64; 3] = [0.25, 0.5, 1.0];

/// A generated Gravsoft grid, served from memory through `GridCtx`.
#[derive(Clone, Debug, Serialize, Deserialize)]
struct GridSpec {
    name: String,
    lat_s: i32,
    lon_w: i32,
    rows: u8,
    cols: u8,
    dlat_i: u8,
    dlon_i: u8,
    bands: u8,
    /// 0: smooth small values (inverse iteration is a contraction), 1: wild (2 bands only)
    pattern: u8,
    amp: F,
}

impl GridSpec {
    fn dlat(&self) -> f64 {
        SPACINGS[self.dlat_i as usize % 3]
    }
    fn dlon(&self) -> f64 {
        SPACINGS[self.dlon_i as usize % 3]
    }
    fn lat_n(&self) -> f64 {
        self.lat_s as f64 + (self.rows as f64 - 1.0) * self.dlat()
    }
    fn lon_e(&self) -> f64 {
        self.lon_w as f64 + (self.cols as f64 - 1.0) * self.dlon()
    }
    fn node(&self, band: usize, r: usize, c: usize) -> f64 {
        let (r, c, a) = (r as f64, c as f64, self.amp.0);
        match (self.bands, self.pattern) {
            (1, _) => 35.0 + a * (0.2 * r - 0.15 * c),
            (2, 0) => {
                if band == 0 {
                    a * (0.30 + 0.013 * r + 0.007 * c)
                } else {
                    a * (-0.20 + 0.011 * c - 0.005 * r)
                }
            }
            (2, _) => {
                let s = if (r as i64 + c as i64) % 2 == 0 { 1.0 } else { -1.0 };
                s * 2500.0 * if band == 0 { 1.0 } else { -0.8 }
            }
            _ => match band {
                0 => a * (-2.0 + 0.07 * c),
                1 => a * (1.0 + 0.1 * r),
                _ => a * 0.3,
            },
        }
    }
    fn text(&self) -> String {
        let (rows, cols) = (self.rows as usize, self.cols as usize);
        let values: Vec<Vec<Vec<f64>>> = (0..self.bands as usize)
            .map(|b| (0..rows).map(|r| (0..cols).map(|c| self.node(b, r, c)).collect()).collect())
            .collect();
        gravsoft_text(self.lat_s as f64, self.lat_n(), self.lon_w as f64, self.lon_e(), self.dlat(), self.dlon(), &values)
    }
}

/// One operator configuration. `num` and `tag` carry what the generator / the traits table need.
#[derive(Clone, Debug, Serialize, Deserialize)]
struct OpCfg {
    fam: String,
    def: String,
    tag: String,
    num: Vec<F>,
    grid: Option<GridSpec>,
}

#[derive(Clone, Debug, Serialize, Deserialize)]
struct Tup {
    p: P4,
    /// bit i set: element i is replaced by NaN (after the optional forward pre-step)
    mask: u8,
    cls: Cls,
    /// `p` is geographic: the operator is first applied forward (must succeed), the result is
    /// the input of the inverse application under test
    via_fwd: bool,
}

#[derive(Clone, Debug, Serialize, Deserialize)]
struct Case {
    op: OpCfg,
    fwd: bool,
    tups: Vec<Tup>,
}

// ---- small helpers -----------------------------------------------------------------------

fn lerp(u: f64, a: f64, b: f64) -> f64 {
    a + u * (b - a)
}
fn sgn(u: f64) -> f64 {
    if u < 0.5 {
        -1.0
    } else {
        1.0
    }
}
/// split a unit draw into (index in 0..n, remainder in [0,1))
fn split(u: f64, n: usize) -> (usize, f64) {
    let x = (u.clamp(0.0, 0.999_999_999) * n as f64).max(0.0);
    let i = (x.floor() as usize).min(n - 1);
    (i, (x - i as f64).clamp(0.0, 1.0))
}
fn zsel(u: f64) -> f64 {
    [0.0, 100.0, -50.25, 8848.86, -0.0, 1.0e-300, 12345.678, -1.0e5][split(u, 8).0]
}
fn tsel(u: f64) -> f64 {
    [2020.0, 0.0, 1999.5, 2030.25, -0.0, 1.0, 2015.123, -7.5][split(u, 8).0]
}
fn tsel_nonneg_zero(u: f64) -> f64 {
    // 2010.0 is exactly the t_epoch of every `deformation t_epoch=2010` configuration (two slots in eight)
    [2020.0, 0.0, 1999.5, 2030.25, 2010.0, 1.0, 2010.0, 1987.5][split(u, 8).0]
}
fn sphere_direct(lon1: f64, lat1: f64, az: f64, d: f64) -> (f64, f64) {
    let s = (lat1.sin() * d.cos() + lat1.cos() * d.sin() * az.cos()).clamp(-1.0, 1.0);
    let lat2 = s.asin();
    let lon2 = lon1 + (az.sin() * d.sin() * lat1.cos()).atan2(d.cos() - lat1.sin() * s);
    (lon2, lat2)
}
fn has_nan(c: &Coor4D) -> bool {
    (0..4).any(|i| c[i].is_nan())
}
fn all_finite(c: &Coor4D) -> bool {
    (0..4).all(|i| c[i].is_finite())
}
fn dirname(fwd: bool) -> &'static str {
    if fwd {
        "fwd"
    } else {
        "inv"
    }
}

const ELL: [&str; 5] = ["GRS80", "intl", "bessel", "WGS84", "GRS67"];

/// The constant of `src/inner_op/tmerc.rs` (lines 77 and 131): a tuple is rejected when the
/// normalised easting `|(x - x_0) / qs|` exceeds it, `qs = k_0 * a * Qn` (rectifying radius).
const TMERC_STRIP_LIMIT: f64 = 2.623395162778;

/// The cone constant of the Lambert conformal conic from the documented formula (Snyder 15-8 / 15-9a;
/// `n = ln(m1/m2) / ln(t1/t2)`, `n = sin(lat_1)` for a tangent cone). Its sign is the hemisphere of the apex.
fn lcc_cone_constant(lat_1: f64, lat_2: f64, ellps: &str) -> f64 {
    let (_, a, rf) = vcore::refmath::PROJ_ELLIPSOIDS.iter().find(|e| e.0 == ellps).expect("ellipsoid in the reference table");
    let e = El::from_rf(*a, *rf).e();
    let (p1, p2) = (lat_1.to_radians(), lat_2.to_radians());
    if (p1 - p2).abs() < 1.0e-10 {
        return p1.sin();
    }
    let m = |p: f64| p.cos() / (1.0 - e * e * p.sin() * p.sin()).sqrt();
    let t = |p: f64| (std::f64::consts::FRAC_PI_4 - p / 2.0).tan() / ((1.0 - e * p.sin()) / (1.0 + e * p.sin())).powf(e / 2.0);
    (m(p1) / m(p2)).ln() / (t(p1) / t(p2)).ln()
}

/// a * Qn, the rectifying radius, from the published (a, 1/f) of the named ellipsoid
/// (Karney 2010 eq. 29; written here independently of the library).
fn rectifying_radius(ellps: &str) -> f64 {
    let (_, a, rf) = vcore::refmath::PROJ_ELLIPSOIDS.iter().find(|e| e.0 == ellps).expect("ellipsoid in the reference table");
    let n = El::from_rf(*a, *rf).n3();
    let n2 = n * n;
    a * (1.0 + n2 / 4.0 + n2 * n2 / 64.0 + n2 * n2 * n2 / 256.0) / (1.0 + n)
}

const FAMILIES: [&str; 29] = [
    "noop", "addone", "adapt", "axisswap", "btmerc", "butm", "cart", "curvature", "deflection", "deformation", "dm", "dms",
    "geodesic", "gravity", "gridshift", "helmert", "laea", "latitude", "lcc", "merc", "webmerc", "molodensky", "omerc",
    "permtide", "somerc", "tmerc", "unitconvert", "utm", "stackalone",
];

/// built-in operator names exercised by each family (compared with the hook's list)
fn covered_names() -> Vec<&'static str> {
    let mut v: Vec<&str> = FAMILIES.iter().cloned().filter(|f| *f != "stackalone").collect();
    v.extend(["longlat", "latlon", "latlong", "lonlat", "pipeline", "push", "pop", "stack"]);
    v
}

// ---- the operator catalogue ----------------------------------------------------------------

fn make_grid(name: &str, bands: u8, pattern: u8, v: &[u16; 4], vf: &[f64; 4]) -> GridSpec {
    GridSpec {
        name: name.to_string(),
        lat_s: -60 + pick(v[1], 112) as i32, // -60..51, north edge <= 58
        lon_w: -150 + pick(v[2], 281) as i32, // -150..130
        rows: 3 + pick(v[3], 6) as u8,
        cols: 3 + split(vf[1], 6).0 as u8,
        dlat_i: split(vf[2], 3).0 as u8,
        dlon_i: split(vf[3], 3).0 as u8,
        bands,
        pattern,
        amp: F(lerp(split(vf[1], 6).1, 0.1, 3.0)),
    }
}

/// Build one configuration of family `fam` from monotone draws.
/// `num` layout for the plane projections: [lon_c°, lat_c°, x_0, y_0, k_0].
fn make_cfg(fam: &str, v: &[u16; 4], vf: &[f64; 4]) -> OpCfg {
    let ell = ELL[pick(v[0], ELL.len())];
    let mut tag = String::new();
    let mut num: Vec<f64> = vec![];
    let mut grid = None;
    let r2 = |x: f64| (x * 100.0).round() / 100.0;
    let def = match fam {
        "noop" => ["noop", "longlat", "latlon", "latlong", "lonlat"][pick(v[1], 5)].to_string(),
        "addone" => "addone".to_string(),
        "adapt" => {
            const D2: [&str; 8] = ["neuf_deg", "enuf_rad", "wsuf_gon", "seuf_deg", "enuf", "nwuf_deg", "swuf_rad", "neuf"];
            const D4: [&str; 6] = ["uenf", "fnue_deg", "dwsp", "punw_gon", "nfeu_deg", "enuf_deg"];
            let (list, t): (&[&str], &str) = if v[0] % 3 == 0 { (&D4, "4d") } else { (&D2, "2d") };
            tag = t.to_string();
            let a = list[pick(v[1], list.len())];
            let b = list[pick(v[2], list.len())];
            match v[3] % 3 {
                0 => format!("adapt from={a}"),
                1 => format!("adapt to={b}"),
                _ => format!("adapt from={a} to={b}"),
            }
        }
        "axisswap" => {
            const ORD: [&str; 11] = ["2,1", "-1,2", "2,-1,3", "3,1,2", "4,3,2,1", "-2,-1,4,3", "1", "-1", "2,1,3,4", "1,3,2", "1,2,3,4"];
            let o = ORD[pick(v[1], ORD.len())];
            num.push(o.split(',').count() as f64);
            if v[2] % 8 == 0 {
                num[0] = 0.0;
                "axisswap".to_string()
            } else {
                format!("axisswap order={o}")
            }
        }
        "tmerc" | "btmerc" => {
            let lon_c = -150.0 + 15.0 * pick(v[1], 21) as f64;
            let k = [1.0, 0.9996, 0.9999, 1.0002][pick(v[2], 4)];
            let x0 = [0.0, 500000.0, -3.0e6, -20000.0][pick(v[3], 4)];
            let y0 = [0.0, 10000000.0, -5000.0][split(vf[0], 3).0];
            let lat0 = if fam == "tmerc" { [0.0, 40.0, -33.0][split(vf[1], 3).0] } else { 0.0 };
            // num[5]: the declared inverse strip limit in metres, |x - x_0| <= limit
            num = vec![lon_c, lat0, x0, y0, k, TMERC_STRIP_LIMIT * k * rectifying_radius(ell)];
            if fam == "tmerc" {
                format!("tmerc lon_0={lon_c} lat_0={lat0} k_0={k} x_0={x0} y_0={y0} ellps={ell}")
            } else {
                format!("btmerc lon_0={lon_c} k_0={k} x_0={x0} y_0={y0} ellps={ell}")
            }
        }
        "utm" | "butm" => {
            let zone = 1 + pick(v[1], 60);
            let south = v[2] % 2 == 1;
            num = vec![-183.0 + 6.0 * zone as f64, 0.0, 500000.0, if south { 1.0e7 } else { 0.0 }, 0.9996, TMERC_STRIP_LIMIT * 0.9996 * rectifying_radius(ell)];
            format!("{fam} zone={zone}{} ellps={ell}", if south { " south" } else { "" })
        }
        "merc" => {
            let x0 = [0.0, 1000.0, -250000.0][pick(v[1], 3)];
            let y0 = [0.0, -3000.0, 500000.0][pick(v[2], 3)];
            let k_or_ts = match v[3] % 3 {
                0 => String::new(),
                1 => format!(" k_0={}", [0.9996, 1.0, 0.5][split(vf[0], 3).0]),
                _ => format!(" lat_ts={}", [56.0, -33.0, 10.0][split(vf[0], 3).0]),
            };
            let lon0 = [0.0, 9.0, -123.5][split(vf[1], 3).0];
            num = vec![lon0, 0.0, x0, y0, 1.0];
            format!("merc lon_0={lon0} x_0={x0} y_0={y0}{k_or_ts} ellps={ell}")
        }
        "webmerc" => {
            num = vec![0.0, 0.0, 0.0, 0.0, 1.0];
            if v[1] % 2 == 0 {
                "webmerc".to_string()
            } else {
                format!("webmerc ellps={ell}")
            }
        }
        "lcc" => {
            // (definition, lon_0, lat_0, x_0, y_0, k_0, lat_1, lat_2)
            let (d, lon_c, lat_c, x0, y0, k, l1, l2): (&str, f64, f64, f64, f64, f64, f64, f64) = match pick(v[1], 13) {
                0 => ("lcc lat_1=57 lon_0=12", 12.0, 57.0, 0.0, 0.0, 1.0, 57.0, 57.0),
                1 => ("lcc lat_1=33 lat_2=45 lon_0=10", 10.0, 39.0, 0.0, 0.0, 1.0, 33.0, 45.0),
                2 => ("lcc lat_1=39 lat_0=35 lon_0=10", 10.0, 35.0, 0.0, 0.0, 1.0, 39.0, 39.0),
                3 => ("lcc lat_1=33 lat_2=45 lat_0=35 lon_0=10 x_0=12345 y_0=67890 k_0=0.99", 10.0, 35.0, 12345.0, 67890.0, 0.99, 33.0, 45.0),
                4 => ("lcc lat_1=-35 lon_0=-60", -60.0, -35.0, 0.0, 0.0, 1.0, -35.0, -35.0),
                5 => ("lcc lat_1=-20 lat_2=-50 lat_0=-30 lon_0=135 x_0=1000000 y_0=2000000", 135.0, -30.0, 1.0e6, 2.0e6, 1.0, -20.0, -50.0),
                6 => ("lcc lat_1=49 lat_2=77 lat_0=63 lon_0=-92 x_0=6200000 y_0=3000000", -92.0, 63.0, 6.2e6, 3.0e6, 1.0, 49.0, 77.0),
                // standard parallels on opposite sides of the equator, in both orders, apex north and south
                7 => ("lcc lat_1=20 lat_2=-23 lat_0=0 lon_0=25", 25.0, 0.0, 0.0, 0.0, 1.0, 20.0, -23.0),
                8 => ("lcc lat_1=-10 lat_2=30 lon_0=-70", -70.0, 0.0, 0.0, 0.0, 1.0, -10.0, 30.0),
                9 => ("lcc lat_1=35 lat_2=-15 lat_0=10 lon_0=100 x_0=500000 y_0=-250000", 100.0, 10.0, 5.0e5, -2.5e5, 1.0, 35.0, -15.0),
                10 => ("lcc lat_1=-40 lat_2=12 lat_0=-10 lon_0=-150 k_0=0.9995", -150.0, -10.0, 0.0, 0.0, 0.9995, -40.0, 12.0),
                11 => ("lcc lat_1=5 lat_2=-60 lat_0=-30 lon_0=60", 60.0, -30.0, 0.0, 0.0, 1.0, 5.0, -60.0),
                _ => ("lcc lat_1=-2 lat_2=48 lat_0=25 lon_0=0 x_0=-1000000", 0.0, 25.0, -1.0e6, 0.0, 1.0, -2.0, 48.0),
            };
            // the apex of the cone is in the hemisphere given by the sign of the cone constant n
            let north = lcc_cone_constant(l1, l2, ell) > 0.0;
            tag = if north { "north" } else { "south" }.to_string();
            num = vec![lon_c, lat_c, x0, y0, k];
            format!("{d} ellps={ell}")
        }
        "laea" => {
            let lon_c = -120.0 + 10.0 * pick(v[2], 25) as f64;
            let (lat_c, t): (f64, &str) = match pick(v[1], 6) {
                0 => (52.0, "oblique"),
                1 => (-37.5, "oblique"),
                2 => (90.0, "polar"),
                3 => (-90.0, "polar"),
                4 => (0.0, "equatorial"),
                _ => (r2(lerp(vf[0], -85.0, 85.0)), "oblique"),
            };
            let t = if lat_c.abs() < 1e-8 { "equatorial" } else { t };
            tag = t.to_string();
            let x0 = [0.0, 4321000.0][pick(v[3], 2)];
            let y0 = [0.0, 3210000.0][split(vf[1], 2).0];
            // num[5]: the radius 2 Rq of the disc onto which the polar aspects map the ellipsoid (for the
            // oblique / equatorial aspects the image is an ellipse with semi-axes 2 Rq D and 2 Rq / D, D ~ 1.0004..1.0011)
            let (_, ea, erf) = vcore::refmath::PROJ_ELLIPSOIDS.iter().find(|e| e.0 == ell).expect("ellipsoid in the reference table");
            num = vec![lon_c, lat_c, x0, y0, 1.0, 2.0 * El::from_rf(*ea, *erf).rq()];
            format!("laea lat_0={lat_c} lon_0={lon_c} x_0={x0} y_0={y0} ellps={ell}")
        }
        "omerc" => {
            let (d, lon_c, lat_c, x0, y0): (&str, f64, f64, f64, f64) = match pick(v[1], 5) {
                0 => (
                    "omerc ellps=evrstSS variant x_0=590476.87 y_0=442857.65 latc=4 lonc=115 k_0=0.99984 alpha=53:18:56.9537 gamma_c=53:07:48.3685",
                    115.0, 4.0, 590476.87, 442857.65,
                ),
                1 => ("omerc ellps=GRS80 latc=45 lonc=10 alpha=30 gamma_c=30 k_0=0.9996 x_0=1000 y_0=2000", 10.0, 45.0, 1000.0, 2000.0),
                2 => ("omerc ellps=intl latc=-18.9 lonc=44.1 alpha=18.9 k_0=0.9995 x_0=400000 y_0=800000", 44.1, -18.9, 4.0e5, 8.0e5),
                3 => ("omerc ellps=GRS80 variant latc=40 lonc=-100 alpha=90 gamma_c=90", -100.0, 40.0, 0.0, 0.0),
                _ => ("omerc ellps=bessel variant latc=-36 lonc=150 alpha=120 gamma_c=115 k_0=0.9999 x_0=5000000 y_0=1000000", 150.0, -36.0, 5.0e6, 1.0e6),
            };
            num = vec![lon_c, lat_c, x0, y0, 1.0];
            d.to_string()
        }
        "somerc" => {
            let (d, lon_c, lat_c, x0, y0): (&str, f64, f64, f64, f64) = match pick(v[1], 3) {
                0 => (
                    "somerc lat_0=46.9524055555556 lon_0=7.43958333333333 k_0=1 x_0=2600000 y_0=1200000 ellps=bessel",
                    7.43958333333333, 46.9524055555556, 2.6e6, 1.2e6,
                ),
                1 => ("somerc lat_0=47.14 lon_0=19.05 k_0=0.99993 x_0=650000 y_0=200000 ellps=GRS67", 19.05, 47.14, 6.5e5, 2.0e5),
                _ => ("somerc lat_0=-30 lon_0=25 ellps=GRS80", 25.0, -30.0, 0.0, 0.0),
            };
            num = vec![lon_c, lat_c, x0, y0, 1.0];
            d.to_string()
        }
        "cart" => format!("cart ellps={ell}"),
        "curvature" => {
            let f = ["prime", "meridian", "gaussian", "mean", "azimuthal"][pick(v[1], 5)];
            tag = f.to_string();
            format!("curvature {f} ellps={ell}")
        }
        "gravity" => {
            let f = ["welmec", "grs80", "grs67", "jeffreys", "cassinis", ""][pick(v[1], 6)];
            let zh = v[2] % 3 == 0;
            tag = if zh { "zero-height" } else { "" }.to_string();
            format!("gravity {f}{} ellps={ell}", if zh { " zero-height" } else { "" })
        }
        "geodesic" => {
            let rev = v[1] % 2 == 1;
            tag = if rev { "reversible" } else { "" }.to_string();
            format!("geodesic{} ellps={ell}", if rev { " reversible" } else { "" })
        }
        "dm" => "dm".to_string(),
        "dms" => "dms".to_string(),
        "latitude" => {
            let f = ["geocentric", "reduced", "parametric", "conformal", "authalic", "rectifying"][pick(v[1], 6)];
            format!("latitude {f} ellps={ell}")
        }
        "permtide" => {
            const S: [&str; 3] = ["mean", "zero", "free"];
            let k = if v[3] % 2 == 0 { String::new() } else { " k=0.28".to_string() };
            format!("permtide from={} to={}{k} ellps={ell}", S[pick(v[1], 3)], S[pick(v[2], 3)])
        }
        "unitconvert" => {
            const LIN: [&str; 8] = ["m", "km", "ft", "us-ft", "mm", "yd", "kmi", "ind-ch"];
            const ANG: [&str; 3] = ["rad", "deg", "grad"];
            let (a, b) = if v[3] % 2 == 0 { (LIN[pick(v[1], 8)], LIN[pick(v[2], 8)]) } else { (ANG[pick(v[1], 3)], ANG[pick(v[2], 3)]) };
            let (za, zb) = (LIN[split(vf[0], 8).0], LIN[split(vf[1], 8).0]);
            format!("unitconvert xy_in={a} xy_out={b} z_in={za} z_out={zb}")
        }
        "helmert" => match pick(v[1], 7) {
            0 => "helmert x=-87 y=-96 z=-120".to_string(),
            1 => "helmert translation=1,2,3 scale=7.5".to_string(),
            2 => {
                tag = "rotated".to_string();
                "helmert convention=coordinate_frame x=0.06155 rx=-0.0394924 y=-0.01087 ry=-0.0327221 z=-0.04019 rz=-0.0328979 s=-0.009994".to_string()
            }
            3 => {
                tag = "rotated".to_string();
                "helmert exact convention=position_vector rotation=1.5,-2.25,3.125 translation=10,20,30 s=2".to_string()
            }
            4 => {
                tag = "rotated dynamic".to_string();
                "helmert convention=position_vector x=0.0127 dx=-0.0029 rx=-0.00039 drx=-0.00011 y=0.0065 dy=-0.0002 ry=0.00080 dry=-0.00019 z=-0.0209 dz=-0.0006 rz=-0.00114 drz=0.00007 s=0.00195 ds=0.00001 t_epoch=1988.0".to_string()
            }
            5 => {
                tag = "dynamic".to_string();
                "helmert x=1 y=2 z=3 dx=0.01 dy=0.02 dz=-0.03 t_epoch=2010".to_string()
            }
            _ => {
                tag = "fixed".to_string();
                "helmert x=1 y=2 z=3 dx=0.01 dy=0.02 dz=-0.03 ds=0.001 t_epoch=2010 t_obs=2020".to_string()
            }
        },
        "molodensky" => {
            let ab = v[2] % 2 == 1;
            tag = if ab { "abridged" } else { "" }.to_string();
            let base = match pick(v[1], 3) {
                0 => "molodensky ellps_0=WGS84 ellps_1=intl dx=84.87 dy=96.49 dz=116.95".to_string(),
                1 => "molodensky ellps=GRS80 da=-251 df=-0.000014192702 dx=-87 dy=-96 dz=-120".to_string(),
                _ => format!("molodensky ellps={ell} dx=10 dy=-20 dz=30"),
            };
            format!("{base}{}", if ab { " abridged" } else { "" })
        }
        "gridshift" => {
            let (bands, pattern, t) = match pick(v[0], 5) {
                0 => (1u8, 0u8, "geoid"),
                1 | 2 => (2, 0, "datum"),
                3 => (2, 1, "wild"),
                _ => (0, 0, "nogrid"),
            };
            let null = split(vf[0], 2).0 == 1;
            let missing = split(split(vf[0], 2).1, 3).0 == 0;
            tag = format!("{t}{}", if null { " null" } else { "" });
            if bands == 0 {
                // only optional grids, none of them available: without @null every point is outside coverage
                let list = if missing { "@c10.absent" } else { "@c10.absent,@c10.absent2.gsb" };
                format!("gridshift grids={list}{}", if null { ",@null" } else { "" })
            } else {
                let g = make_grid(&format!("c10.{t}"), bands, pattern, v, vf);
                let d = format!("gridshift grids={}{}{}", if missing { "@c10.absent," } else { "" }, g.name, if null { ",@null" } else { "" });
                grid = Some(g);
                d
            }
        }
        "deflection" => {
            let null = split(vf[0], 2).0 == 1;
            if v[0] % 5 == 4 {
                // only optional grids, none of them available
                tag = format!("nogrid{}", if null { " null" } else { "" });
                let list = if v[1] % 2 == 0 { "@c10.absent" } else { "@c10.absent,@c10.absent2" };
                format!("deflection grids={list}{} ellps=GRS80", if null { ",@null" } else { "" })
            } else {
                tag = if null { "null" } else { "" }.to_string();
                let g = make_grid("c10.geoid", 1, 0, v, vf);
                let d = format!("deflection grids={}{} ellps=GRS80", g.name, if null { ",@null" } else { "" });
                grid = Some(g);
                d
            }
        }
        "deformation" => {
            let null = split(vf[0], 2).0 == 1;
            let raw = split(split(vf[0], 2).1, 4).0 == 0;
            // duration from the tuple epoch (t_epoch=2010), a fixed duration, or a fixed duration of exactly zero
            let mode = v[0] % 3;
            let epoch = mode == 0;
            tag = format!("{}{}{}", if epoch { "epoch" } else { "dt" }, if raw { " raw" } else { "" }, if null { " null" } else { "" });
            let g = make_grid("c10.deformation", 3, 0, v, vf);
            // one configuration in five: only optional grids, none of them available
            let nogrid = v[1] % 5 == 4;
            let list = if !nogrid {
                g.name.clone()
            } else if v[2] % 2 == 0 {
                "@c10.absent".to_string()
            } else {
                "@c10.absent,@c10.absent2".to_string()
            };
            let d = format!(
                "deformation{} {} grids={list}{} ellps=GRS80",
                if raw { " raw" } else { "" },
                ["t_epoch=2010", "dt=2.5", "dt=0"][mode as usize],
                if null { ",@null" } else { "" }
            );
            if nogrid {
                tag.push_str(" nogrid");
            } else {
                grid = Some(g);
            }
            d
        }
        "stackalone" => {
            ["push v_1", "pop v_2 v_3", "stack push=1", "stack pop=1,2", "stack swap", "stack roll=2,1", "stack flip=1", "stack unroll=3,-1"][pick(v[1], 8)]
                .to_string()
        }
        other => panic!("unknown family {other}"),
    };
    OpCfg { fam: fam.to_string(), def, tag, num: num.into_iter().map(F).collect(), grid }
}

fn is_proj(fam: &str) -> bool {
    matches!(fam, "tmerc" | "utm" | "btmerc" | "butm" | "merc" | "webmerc" | "lcc" | "laea" | "omerc" | "somerc")
}
fn one_way(fam: &str) -> bool {
    matches!(fam, "curvature" | "deflection" | "gravity")
}

// ---- what each operator writes and what depends on what ------------------------------------

#[derive(Clone, Debug, Default)]
struct Traits {
    /// elements the operator works on (may change); all others must come back bit-identical
    w: [bool; 4],
    /// d[out][inp]: NaN in input element `inp` must give NaN in output element `out`
    d: [[bool; 4]; 4],
    /// look-up helpers that rewrite all four elements: untouched-axes clause not applied
    exempt: bool,
    /// this direction is the unsupported inverse of a one-way operator: 0 and data untouched
    one_way_inverse: bool,
    /// stand-alone stack instruction (acts only inside a pipeline): placeholder semantics
    placeholder: bool,
    /// signed permutation of the first k elements: the number of NaNs among them is preserved
    perm: Option<usize>,
}

fn dep(pairs: &[(usize, usize)]) -> [[bool; 4]; 4] {
    let mut d = [[false; 4]; 4];
    for i in 0..4 {
        d[i][i] = true;
    }
    for &(o, i) in pairs {
        d[o][i] = true;
    }
    d
}
const XY_FULL: [(usize, usize); 2] = [(0, 1), (1, 0)];
const XYZ_FULL: [(usize, usize); 6] = [(0, 1), (0, 2), (1, 0), (1, 2), (2, 0), (2, 1)];

fn traits(cfg: &OpCfg, fwd: bool) -> Traits {
    let has = |s: &str| cfg.tag.split(' ').any(|t| t == s);
    let mut t = Traits { d: dep(&[]), ..Default::default() };
    match cfg.fam.as_str() {
        "noop" => {}
        "addone" => t.w = [true, false, false, false],
        "adapt" => {
            let k = if has("4d") { 4 } else { 2 };
            for i in 0..k {
                t.w[i] = true;
            }
            t.perm = Some(k);
            t.d = [[false; 4]; 4];
            for i in k..4 {
                t.d[i][i] = true;
            }
        }
        "axisswap" => {
            let k = cfg.num[0].0 as usize;
            for i in 0..k {
                t.w[i] = true;
            }
            t.perm = Some(k);
            t.d = [[false; 4]; 4];
            for i in k..4 {
                t.d[i][i] = true;
            }
        }
        "tmerc" | "utm" | "btmerc" | "butm" | "lcc" | "laea" | "omerc" | "somerc" => {
            t.w = [true, true, false, false];
            t.d = dep(&XY_FULL);
        }
        "merc" | "webmerc" => t.w = [true, true, false, false],
        "dm" | "dms" => {
            t.w = [true, true, false, false];
            t.d = [[false; 4]; 4];
            t.d[0][1] = true;
            t.d[1][0] = true;
            t.d[2][2] = true;
            t.d[3][3] = true;
        }
        "cart" => {
            t.w = [true, true, true, false];
            t.d = if fwd { dep(&[(0, 1), (0, 2), (1, 0), (1, 2), (2, 1)]) } else { dep(&[(0, 1), (1, 0), (1, 2), (2, 0), (2, 1)]) };
        }
        "curvature" => {
            t.exempt = true;
            t.w = [true, true, false, false];
            if has("azimuthal") {
                t.d = dep(&[(0, 1)]);
            }
        }
        "gravity" => {
            t.exempt = true;
            t.w = [true, false, false, false];
            if !has("zero-height") {
                t.d = dep(&[(0, 1)]);
            }
        }
        "deflection" => {
            t.exempt = true;
            t.w = [true, true, true, true];
            // with @null the intended behaviour for a NaN position is not documented: no dependency asserted
            t.d = if has("null") { [[false; 4]; 4] } else { dep(&XY_FULL) };
        }
        "geodesic" => {
            t.exempt = true;
            t.w = [true; 4];
            if fwd {
                // (lat1, lon1, azimuth, distance) -> (lat2, lon2, lat1, lon1): lat2 does not depend on lon1
                t.d = [[true, false, true, true], [true, true, true, true], [true, false, false, false], [false, true, false, false]];
            } else {
                t.d = [[true; 4]; 4];
            }
        }
        "gridshift" => {
            if has("geoid") {
                t.w = [false, false, true, false];
                if !has("null") {
                    t.d = dep(&[(2, 0), (2, 1)]);
                }
            } else if has("datum") || has("wild") {
                t.w = [true, true, false, false];
                if !has("null") {
                    t.d = dep(&XY_FULL);
                }
            }
        }
        "deformation" => {
            t.w = [true, true, true, has("raw")];
            if !has("null") {
                let mut p = XYZ_FULL.to_vec();
                if has("epoch") {
                    p.extend([(0, 3), (1, 3), (2, 3)]);
                }
                if has("raw") {
                    p.extend([(3, 0), (3, 1), (3, 2)]);
                }
                t.d = dep(&p);
            }
            if has("raw") {
                // the raw mode replaces the tuple by (dX, dY, dZ, |d|): the input epoch is not an output
                t.d[3][3] = false;
            }
        }
        "helmert" => {
            t.w = [true, true, true, false];
            let mut p = vec![];
            if has("rotated") {
                p.extend(XYZ_FULL);
            }
            if has("dynamic") {
                p.extend([(0, 3), (1, 3), (2, 3)]);
            }
            t.d = dep(&p);
        }
        "molodensky" => {
            t.w = [true, true, true, false];
            t.d = if has("abridged") { dep(&[(0, 1), (1, 0), (2, 0), (2, 1)]) } else { dep(&XYZ_FULL) };
        }
        "latitude" => t.w = [false, true, false, false],
        "permtide" => {
            t.w = [false, false, true, false];
            t.d = dep(&[(2, 1)]);
        }
        "unitconvert" => t.w = [true, true, true, false],
        "stackalone" => t.placeholder = true,
        other => panic!("no traits for {other}"),
    }
    if one_way(&cfg.fam) && !fwd {
        t.one_way_inverse = true;
    }
    t
}

// ---- tuple generators: one class per draw, constructed (never filtered) ----------------------

/// (lon°, lat°) relative to a grid: 0 inside (shrunk), 1 outside (beyond the half-cell margin),
/// 2 around the border.
fn grid_point(g: &GridSpec, where_: u8, u0: f64, u1: f64, u2: f64) -> (f64, f64) {
    let (dlat, dlon) = (g.dlat(), g.dlon());
    let (lat_s, lat_n, lon_w, lon_e) = (g.lat_s as f64, g.lat_n(), g.lon_w as f64, g.lon_e());
    let (mlat, mlon) = (0.1 * dlat + 0.01, 0.1 * dlon + 0.01);
    let inside = (lerp(u0, lon_w + mlon, lon_e - mlon), lerp(u1, lat_s + mlat, lat_n - mlat));
    match where_ {
        0 => inside,
        1 => {
            let (side, r) = split(u2, 4);
            let off = 0.75 + 0.05 + r * 19.0; // cells beyond the border (margin is 0.5 cell)
            let lat_any = lerp(u1, lat_s - 5.0 * dlat, lat_n + 5.0 * dlat);
            let lon_any = lerp(u0, lon_w - 5.0 * dlon, lon_e + 5.0 * dlon);
            match side {
                0 => (lon_w - off * dlon - 0.01, lat_any),
                1 => (lon_e + off * dlon + 0.01, lat_any),
                2 => (lon_any, lat_s - off * dlat - 0.01),
                _ => (lon_any, lat_n + off * dlat + 0.01),
            }
        }
        _ => {
            let (side, r) = split(u2, 4);
            let off = lerp(r, -0.1, 0.75);
            match side {
                0 => (lon_w - off * dlon, inside.1),
                1 => (lon_e + off * dlon, inside.1),
                2 => (inside.0, lat_s - off * dlat),
                _ => (inside.0, lat_n + off * dlat),
            }
        }
    }
}

fn any_geo(u: &[f64; 6]) -> (f64, f64) {
    let (k, r) = split(u[2], 8);
    match k {
        0 => (lerp(u[0], -1.0e3, 1.0e3), lerp(u[1], -1.0e3, 1.0e3)),
        1 => (lerp(u[0], -PI, PI), FRAC_PI_2 * sgn(r)),
        2 => (PI * sgn(r), lerp(u[1], -FRAC_PI_2, FRAC_PI_2)),
        3 => (0.0, 0.0),
        _ => (lerp(u[0], -4.0, 4.0), lerp(u[1], -2.0, 2.0)),
    }
}

fn any_planar(x0: f64, y0: f64, u: &[f64; 6]) -> (f64, f64) {
    let s = [2.0e7, 1.0e9, 1.0e5, 2.0e7, 1.0e12][split(u[2], 5).0];
    (x0 + lerp(u[0], -1.0, 1.0) * s, y0 + lerp(u[1], -1.0, 1.0) * s)
}

fn gen_proj(cfg: &OpCfg, fwd: bool, sel: u8, u: &[f64; 6]) -> (P4, Cls, bool) {
    let (lon_c, lat_c, x0, y0, k0) = (cfg.num[0].0, cfg.num[1].0, cfg.num[2].0, cfg.num[3].0, cfg.num[4].0);
    let fam = cfg.fam.as_str();
    let (z, t) = (zsel(u[4]), tsel(u[5]));
    let rad = |lon: f64, lat: f64| (lon.to_radians(), lat.to_radians());
    let pole_draw = split(u[3], 6).0 == 0;
    let antipode_draw = matches!(split(u[3], 6).0, 1 | 2);
    let near_pole = |sign: f64| sign * (FRAC_PI_2 - [0.0, 0.0, 1.0e-11, 5.0e-11][split(split(u[3], 6).1, 4).0]);
    let interior = || -> (f64, f64) {
        match fam {
            // one interior tuple in six sits exactly on a pole (or within 1e-11 rad of it)
            "tmerc" | "utm" if pole_draw => ((lon_c + lerp(u[0], -60.0, 60.0)).to_radians(), near_pole(sgn(u[1]))),
            "btmerc" | "butm" if pole_draw => ((lon_c + lerp(u[0], -3.0, 3.0)).to_radians(), near_pole(sgn(u[1]))),
            "tmerc" | "utm" => rad(lon_c + lerp(u[0], -60.0, 60.0), lerp(u[1], -89.0, 89.0)),
            "btmerc" | "butm" => rad(lon_c + lerp(u[0], -3.0, 3.0), lerp(u[1], -80.0, 80.0)),
            "merc" | "webmerc" => rad(lerp(u[0], -180.0, 180.0), lerp(u[1], -85.0, 85.0)),
            // the pole at the apex of the cone is inside the domain (it maps to the apex)
            "lcc" if pole_draw => ((lon_c + lerp(u[0], -170.0, 170.0)).to_radians(), near_pole(if cfg.tag == "north" { 1.0 } else { -1.0 })),
            "lcc" => {
                let lat = if cfg.tag == "north" { lerp(u[1], -60.0, 89.0) } else { lerp(u[1], -89.0, 60.0) };
                rad(lon_c + lerp(u[0], -170.0, 170.0), lat)
            }
            // the poles within 150° of the centre (the near pole always, the far one for |lat_0| <= 60°)
            "laea" if pole_draw => {
                let near = if lat_c >= 0.0 { 1.0 } else { -1.0 };
                let s = if lat_c.abs() <= 60.0 && u[1] < 0.5 { -near } else { near };
                (lerp(u[0], -PI, PI), near_pole(s))
            }
            // 0.05..8 degrees from the antipode of the centre, all azimuths: still inside the forward domain,
            // their images lie in the outermost 0.25 % of the image ellipse
            "laea" if antipode_draw && cfg.tag != "polar" => {
                let delta = 0.05 + 7.95 * u[1] * u[1];
                sphere_direct((lon_c + 180.0).to_radians(), (-lat_c).to_radians(), u[0] * 2.0 * PI, delta.to_radians())
            }
            "laea" => match cfg.tag.as_str() {
                "polar" => {
                    let lat = if lat_c > 0.0 { lerp(u[1], -60.0, 90.0) } else { lerp(u[1], -90.0, 60.0) };
                    rad(lerp(u[0], -180.0, 180.0), lat)
                }
                _ => sphere_direct(lon_c.to_radians(), lat_c.to_radians(), u[0] * 2.0 * PI, (u[1] * 150.0).to_radians()),
            },
            _ => rad(lon_c + lerp(u[0], -3.0, 3.0), lat_c + lerp(u[1], -3.0, 3.0)),
        }
    };
    let geo = |p: (f64, f64)| p4(p.0, p.1, z, t);
    let pole_fams = matches!(fam, "tmerc" | "utm" | "btmerc" | "butm" | "lcc" | "laea");
    let icls = if pole_draw && pole_fams { Cls::Pole } else { Cls::Interior };
    if fwd {
        match sel {
            0..=4 => (geo(interior()), icls, false),
            5 => match fam {
                // beyond the strip limit (normalised easting > 2.6234): low latitude, ~90° off the central meridian
                // (the series is evaluated before the test and diverges near the singular point at lat 0,
                // 82.6° off the meridian, so no geographic region is *guaranteed* to be rejected: edge only)
                "tmerc" | "utm" => (geo(rad(lon_c + sgn(u[2]) * lerp(u[0], 87.0, 93.0), lerp(u[1], -3.0, 3.0))), Cls::Edge, false),
                // the pole opposite the cone apex (within the operator's own 1e-10 rad tolerance)
                "lcc" => {
                    let pole = if cfg.tag == "north" { -FRAC_PI_2 } else { FRAC_PI_2 };
                    let off = [0.0, 2.0e-11, 5.0e-11, 8.0e-11][split(u[1], 4).0];
                    (geo((lerp(u[0], -PI, PI), pole - pole.signum() * off)), Cls::Far, false)
                }
                _ => (geo(any_geo(u)), Cls::Any, false),
            },
            6 => {
                let p = match fam {
                    "tmerc" | "utm" => rad(lon_c + sgn(u[2]) * lerp(u[0], 76.0, 87.0), lerp(u[1], -15.0, 15.0)),
                    "btmerc" | "butm" => rad(lon_c + lerp(u[0], -95.0, 95.0), lerp(u[1], -90.0, 90.0)),
                    "merc" | "webmerc" => (lerp(u[0], -PI, PI), sgn(u[2]) * [FRAC_PI_2, 1.5, 1.57][split(u[1], 3).0]),
                    "lcc" => {
                        let pole = if cfg.tag == "north" { -FRAC_PI_2 } else { FRAC_PI_2 };
                        let (k, r) = split(u[1], 3);
                        let lat = match k {
                            0 => pole - pole.signum() * lerp(r, 0.9e-10, 2.0e-9),
                            1 => -pole,
                            _ => pole - pole.signum() * lerp(r, 1.0e-9, 0.5),
                        };
                        (lerp(u[0], -PI, PI), lat)
                    }
                    "laea" => {
                        // around the antipode of the centre
                        let (alon, alat) = ((lon_c + 180.0).to_radians(), (-lat_c).to_radians());
                        sphere_direct(alon, alat, u[0] * 2.0 * PI, [0.0, 1.0e-9, 1.0e-4, 0.1][split(u[1], 4).0])
                    }
                    _ => rad(lon_c + lerp(u[0], -80.0, 80.0), (lat_c + lerp(u[1], -60.0, 60.0)).clamp(-90.0, 90.0)),
                };
                (geo(p), Cls::Edge, false)
            }
            _ => (geo(any_geo(u)), Cls::Any, false),
        }
    } else {
        let _ = k0;
        let planar = |p: (f64, f64)| p4(p.0, p.1, z, t);
        if matches!(fam, "tmerc" | "utm") && sel >= 5 {
            // The inverse limit is a constant of the source, relative to x_0: every easting is classified
            // by |x - x_0| / limit (the subtraction is the one the operator performs), with a 1e-9 guard band.
            let limit = cfg.num[5].0;
            let side = sgn(u[2]);
            let (k, r) = split(u[3], 8);
            let eps = [lerp(r, 1.0e-9, 1.0e-6), lerp(r, 1.0e-6, 1.0e-3), lerp(r, 1.0e-3, 0.2)][split(u[0], 3).0];
            let dx = match k {
                // just inside / just outside, both sides
                0 | 1 => side * limit * (1.0 - eps),
                2 | 3 => side * limit * (1.0 + eps),
                // the raw easting (not the reduced one) at the limit: |x| = limit * (1 -+ eps)
                4 => side * limit * (1.0 + sgn(r) * eps) - x0,
                // |x - x_0| = limit -+ |x_0| (where a test forgetting x_0 changes its mind)
                5 => side * (limit + sgn(r) * x0.abs() * (1.0 + sgn(u[0]) * eps)),
                6 => side * limit * lerp(u[0], 0.0, 1.2),
                _ => side * [lerp(u[0], 1.9e7, 4.0e7), lerp(u[0], 4.0e7, 1.0e9)][split(r, 2).0],
            };
            let x = x0 + dx;
            let ratio = (x - x0).abs() / limit;
            let cls = if ratio <= 1.0 - 1.0e-9 {
                Cls::Interior
            } else if ratio >= 1.0 + 1.0e-9 {
                Cls::Far
            } else {
                Cls::Edge
            };
            return (planar((x, y0 + lerp(u[1], -1.0e7, 1.0e7))), cls, false);
        }
        match sel {
            0..=4 => (geo(interior()), icls, true),
            5 => match fam {
                // beyond the disc of radius 2 * Rq = 1.274e7 m
                "laea" => {
                    let r = [lerp(u[0], 1.5e7, 4.0e7), lerp(u[0], 4.0e7, 1.0e9)][split(u[3], 2).0];
                    let az = u[1] * 2.0 * PI;
                    (planar((x0 + r * az.sin(), y0 + r * az.cos())), Cls::Far, false)
                }
                _ => (planar(any_planar(x0, y0, u)), Cls::Any, false),
            },
            6 => {
                let p = match fam {
                    "laea" => {
                        // half of them in a band of +-1 % around the rim radius 2 Rq, the rest 1.1e7..1.5e7 m
                        let rim = cfg.num[5].0;
                        let r = if split(u[3], 2).0 == 0 { rim * lerp(u[0], 0.99, 1.01) } else { lerp(u[0], 1.1e7, 1.5e7) };
                        let az = u[1] * 2.0 * PI;
                        (x0 + r * az.sin(), y0 + r * az.cos())
                    }
                    _ => (x0 + lerp(u[0], -1.0, 1.0) * 1.0e8, y0 + lerp(u[1], -1.0, 1.0) * 1.0e8),
                };
                (planar(p), Cls::Edge, false)
            }
            _ => (planar(any_planar(x0, y0, u)), Cls::Any, false),
        }
    }
}

fn any_p4(u: &[f64; 6]) -> P4 {
    let s = [1.0, 1.0e3, 1.0e7, 1.0e7][split(u[3], 4).0];
    p4(lerp(u[0], -s, s), lerp(u[1], -s, s), lerp(u[2], -s, s), tsel(u[5]))
}

fn gen_grid_family(cfg: &OpCfg, sel: u8, u: &[f64; 6]) -> (P4, Cls, bool) {
    let has = |s: &str| cfg.tag.split(' ').any(|t| t == s);
    let Some(g) = &cfg.grid else {
        // Only optional grids were listed and none of them is available: the operator instantiates
        // (Rumination 002: optional grids do not block instantiation) with an empty grid list, so every
        // point is outside coverage: without @null NaN-marked and not counted, with @null passed and counted.
        let cls = if has("null") { Cls::NullPass } else { Cls::Far };
        let p = match cfg.fam.as_str() {
            "gridshift" => {
                let (lon, lat) = if sel < 7 { (lerp(u[0], -PI, PI), lerp(u[1], -FRAC_PI_2, FRAC_PI_2)) } else { any_geo(u) };
                p4(lon, lat, zsel(u[4]), tsel(u[5]))
            }
            "deflection" => p4(lerp(u[1], -90.0, 90.0), lerp(u[0], -180.0, 180.0), zsel(u[4]), tsel(u[5])),
            _ => {
                let c = El::grs80().cartesian(lerp(u[0], -PI, PI), lerp(u[1], -1.55, 1.55), lerp(u[4], -100.0, 3000.0));
                p4(c[0], c[1], c[2], tsel_nonneg_zero(u[5]))
            }
        };
        return (p, cls, false);
    };
    let (where_, cls) = match sel {
        0..=3 => (0u8, if has("wild") { Cls::Edge } else { Cls::Interior }),
        4 | 5 => (1, if has("null") { Cls::NullPass } else { Cls::Far }),
        6 | 7 => (2, Cls::Edge),
        _ => (9, Cls::Any),
    };
    let (lon, lat) = if where_ == 9 {
        (lerp(u[0], -180.0, 180.0), lerp(u[1], -85.0, 85.0))
    } else {
        grid_point(g, where_, u[0], u[1], u[2])
    };
    match cfg.fam.as_str() {
        "gridshift" => {
            let z = if has("geoid") { lerp(u[4], -500.0, 5000.0) } else { zsel(u[4]) };
            (p4(lon.to_radians(), lat.to_radians(), z, tsel(u[5])), cls, false)
        }
        "deflection" => (p4(lat, lon, zsel(u[4]), tsel(u[5])), cls, false),
        _ => {
            // deformation: cartesian input
            let h = lerp(u[4], -100.0, 3000.0);
            let c = El::grs80().cartesian(lon.to_radians(), lat.to_radians(), h);
            (p4(c[0], c[1], c[2], tsel_nonneg_zero(u[5])), cls, false)
        }
    }
}

/// Build one tuple of the class selected by `sel` (0..10) for configuration `cfg`.
fn gen_tup(cfg: &OpCfg, fwd: bool, sel: u8, u: &[f64; 6]) -> (P4, Cls, bool) {
    let fam = cfg.fam.as_str();
    let interior = sel <= 5;
    if is_proj(fam) {
        return gen_proj(cfg, fwd, sel, u);
    }
    match fam {
        "gridshift" | "deflection" | "deformation" => gen_grid_family(cfg, sel, u),
        "cart" => {
            if fwd {
                if interior {
                    let lat = match split(u[3], 8).0 {
                        0 => FRAC_PI_2 * sgn(u[1]),
                        _ => lerp(u[1], -FRAC_PI_2, FRAC_PI_2),
                    };
                    (p4(lerp(u[0], -PI, PI), lat, lerp(u[2], -1.0e4, 1.0e7), tsel(u[5])), Cls::Interior, false)
                } else {
                    let (lon, lat) = any_geo(u);
                    (p4(lon, lat, lerp(u[3], -1.0e9, 1.0e9), tsel(u[5])), Cls::Any, false)
                }
            } else if interior {
                let r = lerp(u[2], 6.34e6, 2.0e7);
                let (k, rr) = split(u[3], 6);
                let (x, y, z) = match k {
                    // on the axis of rotation: the poles and the points above / below them
                    0 => ([0.0, -0.0, 1.0e-10][split(rr, 3).0], 0.0, r * sgn(u[1])),
                    // in the equatorial plane
                    1 => (r * (u[0] * 2.0 * PI).cos(), r * (u[0] * 2.0 * PI).sin(), 0.0),
                    _ => {
                        let (lon, lat) = (lerp(u[0], -PI, PI), lerp(u[1], -FRAC_PI_2, FRAC_PI_2));
                        (r * lat.cos() * lon.cos(), r * lat.cos() * lon.sin(), r * lat.sin())
                    }
                };
                (p4(x, y, z, tsel(u[5])), Cls::Interior, false)
            } else {
                let (k, r) = split(u[3], 5);
                let p = match k {
                    0 => p4(0.0, 0.0, 0.0, tsel(u[5])),
                    1 => p4([1.0e-12, 1.0e-9, 1.0e-6][split(r, 3).0], 0.0, lerp(u[2], -7.0e6, 7.0e6), tsel(u[5])),
                    2 => p4(lerp(u[0], -1.0e5, 1.0e5), lerp(u[1], -1.0e5, 1.0e5), lerp(u[2], -1.0e5, 1.0e5), tsel(u[5])),
                    _ => p4(lerp(u[0], -1.0e9, 1.0e9), lerp(u[1], -1.0e9, 1.0e9), lerp(u[2], -1.0e9, 1.0e9), tsel(u[5])),
                };
                (p, if k == 1 { Cls::Edge } else { Cls::Any }, false)
            }
        }
        "curvature" | "gravity" => {
            if interior {
                (p4(lerp(u[0], -90.0, 90.0), lerp(u[1], -360.0, 720.0), zsel(u[4]), tsel(u[5])), Cls::Interior, false)
            } else {
                (any_p4(u), Cls::Any, false)
            }
        }
        "geodesic" => {
            if fwd {
                match sel {
                    0..=5 => {
                        let dist = [lerp(u[3], 1.0, 1.0e4), lerp(u[3], 1.0e4, 1.9e7)][split(u[4], 2).0];
                        (p4(lerp(u[1], -89.0, 89.0), lerp(u[0], -180.0, 180.0), lerp(u[2], -360.0, 360.0), dist), Cls::Interior, false)
                    }
                    6 => {
                        let dist = [0.0, 0.5, 2.0003e7, 2.0e7, -1.0e6][split(u[3], 5).0];
                        (p4(lerp(u[1], -90.0, 90.0), lerp(u[0], -180.0, 180.0), lerp(u[2], -360.0, 360.0), dist), Cls::Edge, false)
                    }
                    _ => (p4(lerp(u[1], -100.0, 100.0), lerp(u[0], -400.0, 400.0), lerp(u[2], -1.0e3, 1.0e3), lerp(u[3], -1.0e9, 1.0e9)), Cls::Any, false),
                }
            } else {
                match sel {
                    0..=5 => {
                        let (lon1, lat1) = (lerp(u[0], -90.0, 90.0), lerp(u[1], -85.0, 85.0));
                        let sep = [lerp(u[3], 0.001, 1.0), lerp(u[3], 1.0, 170.0)][split(u[4], 2).0];
                        let (lon2, lat2) = sphere_direct(lon1.to_radians(), lat1.to_radians(), u[2] * 2.0 * PI, sep.to_radians());
                        (p4(lat1, lon1, lat2.to_degrees(), lon2.to_degrees()), Cls::Interior, false)
                    }
                    6 => {
                        // non-convergence candidates: nearly antipodal pairs; equatorial lines; coincident points
                        let (k, r) = split(u[3], 4);
                        let (lon1, lat1) = (lerp(u[0], -90.0, 90.0), lerp(u[1], -2.0, 2.0));
                        let p = match k {
                            0 | 1 => p4(lat1, lon1, -lat1 + lerp(r, 0.0, 0.6), lon1 + 180.0 - lerp(u[2], 0.0, 0.6)),
                            2 => p4(0.0, lon1, 0.0, lon1 + lerp(u[2], -179.0, 179.0)),
                            _ => p4(lat1, lon1, lat1, lon1),
                        };
                        (p, Cls::Edge, false)
                    }
                    _ => (p4(lerp(u[1], -100.0, 100.0), lerp(u[0], -400.0, 400.0), lerp(u[2], -100.0, 100.0), lerp(u[3], -400.0, 400.0)), Cls::Any, false),
                }
            }
        }
        "dm" | "dms" => {
            if interior {
                if fwd {
                    let enc = |deg_max: f64, a: f64, b: f64, c: f64| {
                        let d = (a * deg_max).floor();
                        let m = (b * 60.0).floor();
                        if fam == "dm" {
                            d * 100.0 + (b * 60.0).min(59.999_999)
                        } else {
                            d * 10000.0 + m * 100.0 + (c * 60.0).min(59.999_999)
                        }
                    };
                    let lat = sgn(u[3]) * enc(90.0, u[1], split(u[1], 97).1, split(u[1], 7919).1);
                    let lon = sgn(split(u[3], 2).1) * enc(180.0, u[0], split(u[0], 89).1, split(u[0], 6007).1);
                    (p4(lat, lon, zsel(u[4]), tsel(u[5])), Cls::Interior, false)
                } else {
                    (p4(lerp(u[0], -PI, PI), lerp(u[1], -FRAC_PI_2, FRAC_PI_2), zsel(u[4]), tsel(u[5])), Cls::Interior, false)
                }
            } else {
                (any_p4(u), Cls::Any, false)
            }
        }
        "latitude" | "permtide" => {
            if interior {
                let lat = if split(u[3], 8).0 == 0 { FRAC_PI_2 * sgn(u[1]) } else { lerp(u[1], -FRAC_PI_2, FRAC_PI_2) };
                let z = if fam == "permtide" { lerp(u[2], -1.0e4, 1.0e4) } else { zsel(u[4]) };
                (p4(lerp(u[0], -PI, PI), lat, z, tsel(u[5])), Cls::Interior, false)
            } else {
                let (lon, lat) = any_geo(u);
                (p4(lon, lat, lerp(u[3], -1.0e6, 1.0e6), tsel(u[5])), Cls::Any, false)
            }
        }
        "molodensky" => {
            if interior {
                (p4(lerp(u[0], -PI, PI), lerp(u[1], -89.0, 89.0).to_radians(), lerp(u[2], -1.0e3, 1.0e4), tsel(u[5])), Cls::Interior, false)
            } else {
                let (lon, lat) = any_geo(u);
                (p4(lon, lat, lerp(u[3], -1.0e6, 1.0e6), tsel(u[5])), Cls::Any, false)
            }
        }
        "helmert" => {
            if interior {
                // one epoch in four is exactly a t_epoch / t_obs of the catalogue's dynamic configurations
                let (k, r) = split(u[5], 4);
                let t = if k == 0 { [1988.0, 2010.0, 2020.0][split(r, 3).0] } else { lerp(u[5], 1990.0, 2030.0) };
                (p4(lerp(u[0], -1.0e7, 1.0e7), lerp(u[1], -1.0e7, 1.0e7), lerp(u[2], -1.0e7, 1.0e7), t), Cls::Interior, false)
            } else {
                (any_p4(u), Cls::Any, false)
            }
        }
        // noop, addone, adapt, axisswap, unitconvert, stand-alone stack instructions: total on finite input
        _ => {
            if interior {
                (p4(lerp(u[0], -1.0e7, 1.0e7), lerp(u[1], -1.0e7, 1.0e7), [lerp(u[2], -1.0e4, 1.0e4), zsel(u[4])][split(u[3], 2).0], tsel(u[5])), Cls::Interior, false)
            } else {
                (any_p4(u), Cls::Any, false)
            }
        }
    }
}

// ---- cases -----------------------------------------------------------------------------------

type RawTup = (u8, [f64; 6], u8);

fn build_case(fam: &str, v: &[u16; 4], vf: &[f64; 4], fwd: bool, raw: &[RawTup]) -> Case {
    let op = make_cfg(fam, v, vf);
    let tups = raw
        .iter()
        .map(|(sel, u, m)| {
            let (p, cls, via_fwd) = gen_tup(&op, fwd, *sel, u);
            // half of the tuples NaN-free, the other half a uniformly drawn subset (16 subsets)
            let mask = if *m < 16 { 0 } else { *m - 16 };
            Tup { p, mask, cls, via_fwd }
        })
        .collect();
    Case { op, fwd, tups }
}

fn unit() -> impl Strategy<Value = f64> {
    // shrinks towards 0; the end points are hit now and then
    prop_oneof![20 => 0.0f64..1.0, 1 => Just(0.0), 1 => Just(0.999_999_999)]
}

fn raw_tup() -> impl Strategy<Value = RawTup> {
    (0u8..10, [unit(), unit(), unit(), unit(), unit(), unit()], 0u8..32)
}

fn case_strategy(fams: &'static [&'static str]) -> impl Strategy<Value = Case> {
    (
        any::<u16>(),
        [any::<u16>(), any::<u16>(), any::<u16>(), any::<u16>()],
        [unit(), unit(), unit(), unit()],
        prop::bool::weighted(0.5),
        prop::collection::vec(raw_tup(), 0..=20),
    )
        .prop_map(move |(f, v, vf, fwd, raw)| build_case(fams[pick(f, fams.len())], &v, &vf, fwd, &raw))
}

fn new_ctx(grid: &Option<GridSpec>) -> Result<GridCtx, Failure> {
    let mut ctx = GridCtx::new();
    if let Some(g) = grid {
        if let Err(e) = ctx.add_grid_bytes(&g.name, g.text().as_bytes()) {
            return Err(Failure { key: "harness-grid-rejected".into(), msg: format!("generated Gravsoft grid {g:?} rejected by the library's reader: {e:?}\n{}", g.text()) });
        }
    }
    Ok(ctx)
}

/// `apply` on a fresh copy; Err = failure record (panic / error result)
fn run_apply(ctx: &GridCtx, op: OpHandle, fwd: bool, data: &mut Vec<Coor4D>, what: &str) -> Result<usize, Failure> {
    match try_apply(ctx, op, dir_of(fwd), data) {
        Err(p) => Err(Failure { key: format!("panic-apply@{}", p.sig()), msg: format!("applying '{what}' ({}) panics: {} at {}:{}", dirname(fwd), p.msg, p.file, p.line) }),
        Ok(Err(e)) => Err(Failure { key: "apply-error".into(), msg: format!("apply of '{what}' ({}) returned an error: {e:?}", dirname(fwd)) }),
        Ok(Ok(c)) => Ok(c),
    }
}

fn choose(fails: Vec<Failure>) -> CaseResult {
    if let Some(f) = fails.iter().find(|f| !REGISTERED.contains(&f.key.as_str())) {
        return Err(f.clone());
    }
    match fails.into_iter().next() {
        Some(f) => Err(f),
        None => Ok(()),
    }
}

/// The per-tuple clauses for one singleton application. Returns the first violated clause.
fn check_tuple(cfg: &OpCfg, fwd: bool, tr: &Traits, tup: &Tup, before: &Coor4D, after: &Coor4D, count: usize) -> Option<Failure> {
    let dir = dirname(fwd);
    let tagk = if matches!(cfg.fam.as_str(), "laea" | "geodesic") && !cfg.tag.is_empty() { format!("-{}", cfg.tag) } else { String::new() };
    let id = format!("{}-{dir}{tagk}{}", cfg.fam, if tup.cls == Cls::Pole { "-pole" } else { "" });
    let ctxt = || {
        format!(
            "definition '{}' ({dir}), class {:?}, NaN mask {:04b}\n input  {}\n output {}\n reported count {count} for this singleton",
            cfg.def, tup.cls, tup.mask, fmt_c4(before), fmt_c4(after)
        )
    };
    let fail = |clause: &str, what: &str| Some(Failure { key: format!("{clause}@{id}"), msg: format!("{what}\n{}", ctxt()) });

    // (1) never more successes than tuples
    if count > 1 {
        return fail("count-exceeds-len", "apply reports more successes than there are tuples");
    }
    // (7) unsupported inverse of a one-way operator: zero, data untouched
    if tr.one_way_inverse {
        if count != 0 || !c4_bits_eq(before, after) {
            return fail("one-way-inverse-not-noop", "the unsupported inverse of a one-way operator must report 0 and leave the data bit-identical");
        }
        return None;
    }
    if tr.placeholder {
        if count == 0 && !(has_nan(after) || c4_bits_eq(before, after)) {
            return fail("placeholder-changed-data", "a stand-alone stack instruction reported 0 but changed the data without NaN-marking it");
        }
        return None;
    }
    let nan_free_input = !has_nan(before);
    // (2) not counted => carries NaN
    if count == 0 && !has_nan(after) {
        return fail("uncounted-not-nan", "the tuple is not counted as a success but comes back without any NaN (unchanged or finite-looking)");
    }
    // (8) beyond a declared domain limit => NaN-marked and not counted
    if tup.cls == Cls::Far && nan_free_input && (count != 0 || !has_nan(after)) {
        return fail("far-outside-counted", "the tuple lies clearly beyond a declared domain limit but is counted / not NaN-marked");
    }
    // outside coverage with @null => passed, counted
    if tup.cls == Cls::NullPass && nan_free_input && (count != 1 || has_nan(after)) {
        return fail("null-grid-outside-not-passed", "the tuple lies outside grid coverage, `@null` is given, but it is not counted / is NaN-marked (documented: passed through, not counted as an error)");
    }
    // (3) interior => transformed and counted, finite
    if matches!(tup.cls, Cls::Interior | Cls::Pole) && nan_free_input {
        if count != 1 {
            return fail("interior-not-counted", "the tuple lies in the interior of the documented domain and is NaN-free, but is not counted");
        }
        if !all_finite(after) {
            return fail("interior-not-finite", "the tuple lies in the interior of the documented domain and is NaN-free, but the result is not finite");
        }
    }
    // laea inverse: the operator tests its domain explicitly in every aspect, so a counted tuple is a
    // transformed one: a NaN-free input never comes back counted and NaN
    if cfg.fam == "laea" && !fwd && nan_free_input && count == 1 && has_nan(after) {
        return fail("counted-but-nan", "NaN-free input, counted as a success, but the result carries NaN (a counted tuple must be a transformed one)");
    }
    // (4) elements the operator does not work on: bit-identical for every transformed tuple
    if !tr.exempt && count == 1 {
        for i in 0..4 {
            if !tr.w[i] && !bits_eq(before[i], after[i]) {
                return fail("untouched-axis-changed", &format!("element {i} is not worked on by this operator but came back changed ({:?} -> {:?})", before[i], after[i]));
            }
        }
    }
    // (5) NaN propagates along the dependency table
    for inp in 0..4 {
        if !before[inp].is_nan() {
            continue;
        }
        for out in 0..4 {
            if tr.d[out][inp] && !after[out].is_nan() {
                return fail("nan-not-propagated", &format!("input element {inp} is NaN, output element {out} depends on it but is {:?}", after[out]));
            }
        }
    }
    if let Some(k) = tr.perm {
        let nb = (0..k).filter(|&i| before[i].is_nan()).count();
        let na = (0..k).filter(|&i| after[i].is_nan()).count();
        if count == 1 && nb != na {
            return fail("nan-not-propagated", &format!("a signed permutation of the first {k} elements must preserve the number of NaNs ({nb} in, {na} out)"));
        }
    }
    None
}

fn check(case: &Case, rec: &mut Rec) -> CaseResult {
    let cfg = &case.op;
    let fwd = case.fwd;
    let tr = traits(cfg, fwd);
    let mut ctx = new_ctx(&cfg.grid)?;
    let op = match try_op(&mut ctx, &cfg.def) {
        Err(p) => vfail!(format!("panic-instantiate@{}", p.sig()), "instantiating '{}' panics: {} at {}:{}", cfg.def, p.msg, p.file, p.line),
        Ok(Err(e)) => vfail!(format!("catalogue-definition-rejected@{}", cfg.fam), "catalogue definition '{}' rejected: {e:?}", cfg.def),
        Ok(Ok(op)) => op,
    };
    let label = format!("{}-{}", cfg.fam, dirname(fwd));
    rec.class(&label);

    // materialise the inputs (optional forward pre-step, then the NaN mask)
    let mut inputs: Vec<(usize, Coor4D)> = vec![];
    for (i, t) in case.tups.iter().enumerate() {
        let mut c = c4(&t.p);
        if t.via_fwd {
            let mut d = vec![c];
            let n = run_apply(&ctx, op, true, &mut d, &cfg.def)?;
            if n != 1 || !all_finite(&d[0]) {
                // judged by the forward-direction cases of the same family, not here
                rec.count("viafwd_prestep_failed", 1);
                continue;
            }
            c = d[0];
        }
        for k in 0..4 {
            if t.mask & (1 << k) != 0 {
                c[k] = f64::NAN;
            }
        }
        inputs.push((i, c));
    }

    let mut fails: Vec<Failure> = vec![];
    let mut singles: Vec<usize> = vec![];
    for (i, before) in &inputs {
        let t = &case.tups[*i];
        let mut d = vec![*before];
        let count = run_apply(&ctx, op, fwd, &mut d, &cfg.def)?;
        singles.push(count);
        rec.count(&format!("{label}:{:?}", t.cls), 1);
        if t.mask != 0 {
            rec.count("tuples_with_nan_subset", 1);
        }
        if count == 0 {
            rec.count("singletons_not_counted", 1);
            if matches!(t.cls, Cls::Edge | Cls::Any) && !has_nan(before) {
                rec.count(&format!("nanfree_edge_or_any_not_counted/{label}"), 1);
            }
        } else if !has_nan(before) && has_nan(&d[0]) {
            rec.count(&format!("nanfree_in_nan_out_but_counted/{label}"), 1);
        }
        if let Some(f) = check_tuple(cfg, fwd, &tr, t, before, &d[0], count) {
            fails.push(f);
        }
    }

    // the batch: count <= len, every uncounted tuple carries NaN, interior tuples are counted,
    // tuples beyond a declared limit are not
    let mut batch: Vec<Coor4D> = inputs.iter().map(|x| x.1).collect();
    let n = batch.len();
    let count = run_apply(&ctx, op, fwd, &mut batch, &cfg.def)?;
    let desc = || format!("definition '{}' ({}), batch of {n} tuples: {:?}", cfg.def, dirname(fwd), inputs.iter().map(|x| fmt_c4(&x.1)).collect::<Vec<_>>());
    if count > n {
        fails.push(Failure { key: format!("count-exceeds-len@{label}"), msg: format!("apply reports {count} successes for {n} tuples\n{}", desc()) });
    } else if fails.is_empty() && !tr.placeholder {
        let nan_free_out = batch.iter().filter(|c| !has_nan(c)).count();
        let must = inputs.iter().filter(|(i, c)| matches!(case.tups[*i].cls, Cls::Interior | Cls::Pole) && !has_nan(c)).count();
        let must_not = inputs.iter().filter(|(i, c)| case.tups[*i].cls == Cls::Far && !has_nan(c)).count();
        if tr.one_way_inverse {
            if count != 0 || !vec_bits_eq(&batch, &inputs.iter().map(|x| x.1).collect::<Vec<_>>()) {
                fails.push(Failure { key: format!("one-way-inverse-not-noop@{label}"), msg: format!("unsupported inverse: count {count}, data changed or counted\n{}", desc()) });
            }
        } else {
            if n - count > n - nan_free_out {
                fails.push(Failure {
                    key: format!("batch-uncounted-not-nan@{label}"),
                    msg: format!("{} tuples are not counted but only {} tuples carry NaN after the call (count {count})\n{}\n after: {:?}", n - count, n - nan_free_out, desc(), batch.iter().map(fmt_c4).collect::<Vec<_>>()),
                });
            }
            if count < must {
                fails.push(Failure { key: format!("batch-interior-not-counted@{label}"), msg: format!("{must} NaN-free interior tuples but count is {count}\n{}", desc()) });
            }
            if count > n - must_not {
                fails.push(Failure { key: format!("batch-far-outside-counted@{label}"), msg: format!("{must_not} tuples beyond a declared limit but count is {count} of {n}\n{}", desc()) });
            }
        }
    }

    // non-trivial: a batch mixing failing and succeeding tuples, or a NaN subset neither empty nor full
    let mixed = singles.iter().any(|c| *c == 0) && singles.iter().any(|c| *c == 1);
    let partial = case.tups.iter().any(|t| t.mask != 0 && t.mask != 15);
    if mixed || partial {
        let bits: Vec<[u64; 4]> = inputs.iter().map(|x| [x.1[0].to_bits(), x.1[1].to_bits(), x.1[2].to_bits(), x.1[3].to_bits()]).collect();
        rec.nontrivial(&(&cfg.def, fwd, bits));
        if mixed {
            rec.count("batches_mixing_failure_and_success", 1);
        }
    }
    let deferred = fails.iter().filter(|f| REGISTERED.contains(&f.key.as_str())).count();
    if deferred > 0 {
        rec.count("violations_of_registered_findings_deferred", deferred as u64);
    }
    choose(fails)
}

// ---- pipelines ---------------------------------------------------------------------------------

#[derive(Clone, Debug, Serialize, Deserialize)]
struct PipeCase {
    kind: String,
    steps: Vec<String>,
    grid: Option<GridSpec>,
    fwd: bool,
    tups: Vec<P4>,
    /// the program underflows the stack in the applied direction: expect 0 and NaN everywhere
    underflow: bool,
}

const STACK_FWD: [&str; 9] = [
    "addone | stack pop=1",
    "stack push=1 | stack pop=1,2",
    "noop | pop v_1",
    "push v_1 | pop v_1 v_2",
    "stack push=1,2 | stack roll=3,1",
    "noop | stack flip=2",
    "stack push=1 | addone | stack flip=1,2",
    "stack push=2 | stack unroll=2,1 | stack unroll=3,1",
    "noop | stack swap",
];
const STACK_INV: [&str; 6] = [
    "stack push=1,2 | addone",
    "push v_1 | noop",
    "stack roll=3,1 | stack pop=1,2",
    "stack flip=2 | addone",
    "stack unroll=3,1 | stack pop=2",
    "stack swap | noop",
];

/// One stack instruction together with the number of stack elements it needs.
#[derive(Clone, Debug)]
enum SIns {
    Roll(usize, i64),
    Unroll(usize, i64),
    Pop(Vec<u8>),
    Flip(Vec<u8>),
    LegacyPop(u8),
    Swap,
}

impl SIns {
    fn need(&self) -> usize {
        match self {
            SIns::Roll(m, _) | SIns::Unroll(m, _) => *m,
            SIns::Pop(l) | SIns::Flip(l) => l.len(),
            SIns::LegacyPop(m) => m.count_ones() as usize,
            SIns::Swap => 2,
        }
    }
    fn list(l: &[u8]) -> String {
        l.iter().map(|i| i.to_string()).collect::<Vec<_>>().join(",")
    }
    fn flags(m: u8) -> String {
        (0..4).filter(|i| m & (1 << i) != 0).map(|i| format!(" v_{}", i + 1)).collect()
    }
    /// the step text which, executed in direction `fwd`, performs this instruction
    fn text(&self, fwd: bool) -> String {
        match (self, fwd) {
            (SIns::Roll(m, n), true) | (SIns::Unroll(m, n), false) => format!("stack roll={m},{n}"),
            (SIns::Unroll(m, n), true) | (SIns::Roll(m, n), false) => format!("stack unroll={m},{n}"),
            (SIns::Pop(l), true) => format!("stack pop={}", Self::list(l)),
            (SIns::Pop(l), false) => format!("stack push={}", Self::list(&l.iter().rev().cloned().collect::<Vec<_>>())),
            (SIns::Flip(l), _) => format!("stack flip={}", Self::list(l)),
            (SIns::LegacyPop(m), true) => format!("pop{}", Self::flags(*m)),
            (SIns::LegacyPop(m), false) => format!("push{}", Self::flags(*m)),
            (SIns::Swap, _) => "stack swap".to_string(),
        }
    }
}

/// Every stack instruction at every argument (roll/unroll for all |n| < m <= 6, incl. n = 0 and +-(m-1);
/// pop/flip lists of length 1..4 over 1..4; the 15 legacy pop subsets; swap).
fn all_stack_instructions() -> Vec<SIns> {
    let mut v = vec![];
    for m in 1..=6usize {
        for n in -(m as i64 - 1)..=(m as i64 - 1) {
            v.push(SIns::Roll(m, n));
            v.push(SIns::Unroll(m, n));
        }
    }
    for len in 1..=4u32 {
        for k in 0..4usize.pow(len) {
            let l: Vec<u8> = (0..len).map(|j| ((k / 4usize.pow(j)) % 4) as u8 + 1).collect();
            v.push(SIns::Pop(l.clone()));
            v.push(SIns::Flip(l));
        }
    }
    for m in 1..16u8 {
        v.push(SIns::LegacyPop(m));
    }
    v.push(SIns::Swap);
    v
}

/// A program that executes, in direction `fwd`: push `depth` elements (fewer than `ins` needs), then `ins`,
/// then optionally a NaN-preserving step.
fn underflow_program(ins: &SIns, depth: usize, fwd: bool, tail: u8) -> Vec<String> {
    let mut exec: Vec<(String, String)> = vec![]; // (text when applied forward, text when applied inversely)
    let idx: Vec<u8> = (0..depth).map(|i| (i % 4) as u8 + 1).collect();
    for chunk in idx.chunks(4) {
        let l = chunk.to_vec();
        let rev: Vec<u8> = l.iter().rev().cloned().collect();
        exec.push((format!("stack push={}", SIns::list(&l)), format!("stack pop={}", SIns::list(&rev))));
    }
    if exec.is_empty() {
        exec.push(("noop".into(), "noop".into()));
    }
    exec.push((ins.text(true), ins.text(false)));
    match tail % 3 {
        1 => exec.push(("addone".into(), "addone inv".into())),
        2 => exec.push(("helmert x=1 y=2 z=3".into(), "helmert x=1 y=2 z=3 inv".into())),
        _ => {}
    }
    if fwd {
        exec.into_iter().map(|e| e.0).collect()
    } else {
        exec.into_iter().rev().map(|e| e.1).collect()
    }
}

fn build_pipe(tpl: u16, v: &[u16; 4], vf: &[f64; 4], fwd: bool, raw: &[RawTup]) -> PipeCase {
    let k = pick(tpl, 10);
    let mask = |p: P4, m: u8| -> P4 {
        let m = if m < 20 { 0 } else { (m - 16) & 15 };
        let mut q = p;
        for i in 0..4 {
            if m & (1 << i) != 0 {
                q[i] = F(f64::NAN);
            }
        }
        q
    };
    let mut grid = None;
    let mut underflow = false;
    let (kind, steps, tups): (&str, Vec<String>, Vec<P4>) = match k {
        0 | 1 => {
            let zone = 1 + pick(v[0], 60);
            let lon_c = -183.0 + 6.0 * zone as f64;
            let steps = vec!["cart ellps=intl".to_string(), "helmert x=-87 y=-96 z=-120".to_string(), "cart inv ellps=GRS80".to_string(), format!("utm zone={zone}")];
            let tups = raw
                .iter()
                .map(|(sel, u, m)| {
                    let p = if fwd {
                        match sel {
                            0..=5 => p4((lon_c + lerp(u[0], -3.0, 3.0)).to_radians(), lerp(u[1], -80.0, 80.0).to_radians(), lerp(u[2], -100.0, 5000.0), tsel(u[5])),
                            6 | 7 => p4((lon_c + sgn(u[2]) * lerp(u[0], 87.0, 93.0)).to_radians(), lerp(u[1], -3.0, 3.0).to_radians(), 0.0, tsel(u[5])),
                            _ => p4(lerp(u[0], -PI, PI), lerp(u[1], -1.5, 1.5), lerp(u[2], -100.0, 5000.0), tsel(u[5])),
                        }
                    } else {
                        match sel {
                            0..=5 => p4(5.0e5 + lerp(u[0], -3.0e5, 3.0e5), lerp(u[1], 0.0, 9.0e6), lerp(u[2], -100.0, 5000.0), tsel(u[5])),
                            6 | 7 => p4(5.0e5 + sgn(u[2]) * lerp(u[0], 2.0e7, 5.0e7), lerp(u[1], 0.0, 9.0e6), 0.0, tsel(u[5])),
                            _ => p4(lerp(u[0], -1.0e7, 1.0e7), lerp(u[1], -1.0e7, 1.0e7), 0.0, tsel(u[5])),
                        }
                    };
                    mask(p, *m)
                })
                .collect();
            ("datum-shift-then-utm", steps, tups)
        }
        2 => {
            let mut g = make_grid("c10.datum", 2, 0, v, vf);
            g.lat_s = -2;
            g.rows = 3;
            let centre = 0.5 * (g.lon_w as f64 + g.lon_e());
            let failing = v[0] % 2 == 0;
            let lon_0 = if failing { centre - 90.0 } else { centre };
            // inverse direction only with `@null`: gridshift's inverse outside coverage is a registered finding
            let null = v[1] % 3 == 0 || !fwd;
            let steps = vec![format!("gridshift grids={}{}", g.name, if null { ",@null" } else { "" }), format!("tmerc lon_0={lon_0}")];
            let tups = raw
                .iter()
                .map(|(sel, u, m)| {
                    let p = if fwd {
                        let (lon, lat) = grid_point(&g, if *sel < 6 { 0 } else { 1 }, u[0], u[1], u[2]);
                        p4(lon.to_radians(), lat.to_radians(), zsel(u[4]), tsel(u[5]))
                    } else {
                        p4(sgn(u[2]) * if *sel < 6 { lerp(u[0], 0.0, 3.0e5) } else { lerp(u[0], 2.0e7, 5.0e7) }, lerp(u[1], -2.0e5, 0.0), zsel(u[4]), tsel(u[5]))
                    };
                    mask(p, *m)
                })
                .collect();
            grid = Some(g);
            ("gridshift-then-tmerc", steps, tups)
        }
        3 => {
            let steps = vec!["laea lat_0=52 lon_0=10 x_0=4321000 y_0=3210000 inv".to_string(), "lcc lat_1=57 lon_0=12".to_string()];
            let tups = raw
                .iter()
                .map(|(sel, u, m)| {
                    let p = if fwd {
                        let r = if *sel < 6 { lerp(u[0], 0.0, 5.0e6) } else { lerp(u[0], 1.5e7, 5.0e7) };
                        let az = u[1] * 2.0 * PI;
                        p4(4321000.0 + r * az.sin(), 3210000.0 + r * az.cos(), zsel(u[4]), tsel(u[5]))
                    } else {
                        p4(lerp(u[0], -3.0e6, 3.0e6), lerp(u[1], -3.0e6, 3.0e6), zsel(u[4]), tsel(u[5]))
                    };
                    mask(p, *m)
                })
                .collect();
            ("laea-inv-then-lcc", steps, tups)
        }
        4 => {
            let steps = vec!["lcc lat_1=57 lon_0=12".to_string(), "addone".to_string(), "helmert x=10 y=20".to_string()];
            let tups = raw
                .iter()
                .map(|(sel, u, m)| {
                    let lat = if *sel < 6 { lerp(u[1], -1.0, 1.55) } else { -FRAC_PI_2 };
                    let p = if fwd { p4(lerp(u[0], -PI, PI), lat, zsel(u[4]), tsel(u[5])) } else { p4(lerp(u[0], -3.0e6, 3.0e6), lerp(u[1], -3.0e6, 3.0e6), zsel(u[4]), tsel(u[5])) };
                    mask(p, *m)
                })
                .collect();
            ("lcc-opposite-pole", steps, tups)
        }
        5 => {
            let steps: Vec<String> = match v[0] % 3 {
                0 => vec!["curvature prime".into(), "addone".into()],
                1 => vec!["addone".into(), "gravity grs80".into(), "helmert x=1".into()],
                _ => vec!["unitconvert xy_in=deg xy_out=rad".into(), "curvature mean ellps=intl".into()],
            };
            let tups = raw.iter().map(|(_, u, m)| mask(p4(lerp(u[0], -90.0, 90.0), lerp(u[1], -90.0, 90.0), zsel(u[4]), tsel(u[5])), *m)).collect();
            ("one-way-step", steps, tups)
        }
        8 | 9 => {
            // every instruction at every argument on a stack one element too shallow, or empty
            underflow = true;
            let all = all_stack_instructions();
            let ins = &all[pick(v[0], all.len())];
            let depth = if v[1] % 2 == 0 { ins.need() - 1 } else { 0 };
            let steps = underflow_program(ins, depth, fwd, (v[2] % 3) as u8);
            let tups = raw.iter().map(|(_, u, m)| mask(any_p4(u), *m)).collect();
            ("stack-underflow", steps, tups)
        }
        _ => {
            underflow = true;
            let text = if fwd {
                let t = STACK_FWD[pick(v[0], STACK_FWD.len())];
                match v[1] % 3 {
                    0 => t.to_string(),
                    1 => format!("{t} | addone"),
                    _ => format!("{t} | helmert x=1 y=2 z=3"),
                }
            } else {
                let t = STACK_INV[pick(v[0], STACK_INV.len())];
                match v[1] % 3 {
                    0 => t.to_string(),
                    1 => format!("addone | {t}"),
                    _ => format!("helmert x=1 y=2 z=3 | {t}"),
                }
            };
            let steps = text.split('|').map(|s| s.trim().to_string()).collect();
            let tups = raw.iter().map(|(_, u, m)| mask(any_p4(u), *m)).collect();
            ("stack-underflow", steps, tups)
        }
    };
    PipeCase { kind: kind.to_string(), steps, grid, fwd, tups, underflow }
}

fn pipe_strategy() -> impl Strategy<Value = PipeCase> {
    (
        any::<u16>(),
        [any::<u16>(), any::<u16>(), any::<u16>(), any::<u16>()],
        [unit(), unit(), unit(), unit()],
        any::<bool>(),
        prop::collection::vec(raw_tup(), 0..=12),
    )
        .prop_map(|(t, v, vf, fwd, raw)| build_pipe(t, &v, &vf, fwd, &raw))
}

fn check_pipe(case: &PipeCase, rec: &mut Rec) -> CaseResult {
    let text = case.steps.join(" | ");
    let mut ctx = new_ctx(&case.grid)?;
    let op = match try_op(&mut ctx, &text) {
        Err(p) => vfail!(format!("panic-instantiate@{}", p.sig()), "instantiating '{text}' panics: {} at {}:{}", p.msg, p.file, p.line),
        Ok(Err(e)) => vfail!(format!("catalogue-definition-rejected@pipeline-{}", case.kind), "pipeline '{text}' rejected: {e:?}"),
        Ok(Ok(op)) => op,
    };
    let inputs = c4s(&case.tups);
    let n = inputs.len();
    let mut data = inputs.clone();
    let count = run_apply(&ctx, op, case.fwd, &mut data, &text)?;
    let dir = dirname(case.fwd);
    rec.class(&format!("{}-{dir}", case.kind));
    let show = |v: &[Coor4D]| v.iter().map(fmt_c4).collect::<Vec<_>>();
    vensure!(count <= n, "count-exceeds-len@pipeline", "pipeline '{text}' ({dir}) reports {count} successes for {n} tuples");

    if case.underflow {
        let key = if text.contains("swap") { "underflow-not-nan@stack-swap" } else { "underflow-not-nan@stack" };
        vensure!(count == 0, key.replace("not-nan", "counted"), "pipeline '{text}' ({dir}) underflows the stack but reports {count} successes for {n} tuples");
        for (i, c) in data.iter().enumerate() {
            vensure!(has_nan(c), key, "pipeline '{text}' ({dir}) underflows the stack, reports {count}, but tuple {i} comes back without NaN: {} (input {})", fmt_c4(c), fmt_c4(&inputs[i]));
        }
        if n > 0 {
            rec.nontrivial(&(&text, case.fwd, n));
        }
        return Ok(());
    }

    // reference: the steps applied one after the other as stand-alone operators; count = minimum
    let order: Vec<&String> = if case.fwd { case.steps.iter().collect() } else { case.steps.iter().rev().collect() };
    let mut refdata = inputs.clone();
    let mut expected = usize::MAX;
    let mut step_counts = vec![];
    for s in order {
        let sop = match try_op(&mut ctx, s) {
            Ok(Ok(o)) => o,
            other => vfail!("harness-step-rejected", "step '{s}' of '{text}' does not instantiate stand-alone: {:?}", other.map(|r| r.map(|_| ()))),
        };
        let c = run_apply(&ctx, sop, case.fwd, &mut refdata, s)?;
        step_counts.push(c);
        expected = expected.min(c);
    }
    vensure!(
        count == expected,
        format!("pipeline-count-not-min@{}", case.kind),
        "pipeline '{text}' ({dir}) on {n} tuples reports {count}; the steps applied one by one report {step_counts:?} (minimum {expected})\n input {:?}",
        show(&inputs)
    );
    if case.kind != "one-way-step" {
        let nan_free = data.iter().filter(|c| !has_nan(c)).count();
        vensure!(
            nan_free <= count,
            format!("pipeline-uncounted-not-nan@{}", case.kind),
            "pipeline '{text}' ({dir}) reports {count} of {n}, but {nan_free} tuples come back without NaN\n input {:?}\n output {:?}",
            show(&inputs),
            show(&data)
        );
    }
    if step_counts.iter().any(|c| *c < n) && (count > 0 || step_counts.iter().any(|c| *c == n)) {
        rec.nontrivial(&(&text, case.fwd, case.tups.iter().map(|p| p.iter().map(|f| f.0.to_bits()).collect::<Vec<_>>()).collect::<Vec<_>>()));
    }
    Ok(())
}

// ---- false origin / central meridian shift: the counted / NaN pattern must move with the origin ----

#[derive(Clone, Debug, Serialize, Deserialize)]
struct ShiftCase {
    fam: String,
    /// the operator with x_0 = y_0 = 0 (inverse) resp. lon_0 = 0 (forward)
    zero: String,
    /// the same operator with x_0 = a, y_0 = b resp. lon_0 = L
    shifted: String,
    fwd: bool,
    a: F,
    b: F,
    lon0: F,
    /// unshifted inputs: (x - x_0, y - y_0, z, t) for the inverse, (lon - lon_0, lat, z, t) forward
    pts: Vec<P4>,
}

const SHIFT_FAMILIES: [&str; 9] = ["tmerc", "utm", "btmerc", "butm", "merc", "lcc", "laea", "somerc", "omerc"];

fn build_shift(f: u16, v: &[u16; 4], vf: &[f64; 4], fwd: bool, raw: &[RawTup]) -> ShiftCase {
    let fam = SHIFT_FAMILIES[pick(f, SHIFT_FAMILIES.len())];
    let ell = ELL[pick(v[0], ELL.len())];
    let r2 = |x: f64| (x * 100.0).round() / 100.0;
    let mut a = [0.0, 500000.0, -3.0e6, r2(lerp(vf[0], -5.0e6, 5.0e6))][pick(v[1], 4)];
    let mut b = [0.0, 1.0e7, -2.5e6, r2(lerp(vf[1], -5.0e6, 5.0e6))][pick(v[2], 4)];
    let mut lon0 = [9.0, -123.5, 177.0, r2(lerp(vf[2], -180.0, 180.0))][pick(v[3], 4)];
    // omerc has no lon_0, utm/butm no free parameters: inverse direction only
    let fwd = fwd && !matches!(fam, "omerc" | "utm" | "butm");
    let k = [1.0, 0.9996, 0.9999][split(vf[3], 3).0];
    // (base definition without lon_0 / x_0 / y_0, a limit in metres around which inverse inputs are drawn)
    let rr = rectifying_radius(ell);
    let (base, limit): (String, f64) = match fam {
        "tmerc" => (format!("tmerc lat_0={} k_0={k} ellps={ell}", [0.0, 40.0, -33.0][split(vf[3], 3).0]), TMERC_STRIP_LIMIT * k * rr),
        "btmerc" => (format!("btmerc k_0={k} ellps={ell}"), TMERC_STRIP_LIMIT * k * rr),
        "utm" | "butm" => (String::new(), TMERC_STRIP_LIMIT * 0.9996 * rr),
        "merc" => (format!("merc k_0={k} ellps={ell}"), 2.0e7),
        "lcc" => (
            format!("{} ellps={ell}", ["lcc lat_1=57", "lcc lat_1=33 lat_2=45 lat_0=39", "lcc lat_1=-35", "lcc lat_1=-20 lat_2=-50 lat_0=-30 k_0=0.99"][split(vf[3], 4).0]),
            1.0e7,
        ),
        // disc radius 2 Rq, Rq = authalic radius (about 0.99888 a)
        "laea" => (format!("laea lat_0={} ellps={ell}", [52.0, -37.5, 90.0, -90.0, 0.0, 12.25][split(vf[3], 6).0]), 2.0 * 0.998_88 * rr / 0.998_32),
        "somerc" => (format!("somerc lat_0={} k_0={k} ellps={ell}", [46.9524055555556, -30.0, 47.14][split(vf[3], 3).0]), 1.0e7),
        _ => (
            ["omerc ellps=GRS80 latc=45 lonc=10 alpha=30 gamma_c=30 k_0=0.9996", "omerc ellps=evrstSS variant latc=4 lonc=115 k_0=0.99984 alpha=53:18:56.9537 gamma_c=53:07:48.3685", "omerc ellps=intl latc=-18.9 lonc=44.1 alpha=18.9 k_0=0.9995"][split(vf[3], 3).0]
                .to_string(),
            1.0e7,
        ),
    };
    let (zero, shifted) = match fam {
        "utm" | "butm" => {
            let zone = 1 + pick(v[3], 60);
            let south = v[2] % 2 == 1;
            a = 500000.0;
            b = if south { 1.0e7 } else { 0.0 };
            lon0 = -183.0 + 6.0 * zone as f64;
            let plain = if fam == "utm" { "tmerc" } else { "btmerc" };
            (format!("{plain} lon_0={lon0} k_0=0.9996 x_0=0 y_0=0 ellps={ell}"), format!("{fam} zone={zone}{} ellps={ell}", if south { " south" } else { "" }))
        }
        "omerc" => (format!("{base} x_0=0 y_0=0"), format!("{base} x_0={a} y_0={b}")),
        _ if fwd => (format!("{base} lon_0=0 x_0={a} y_0={b}"), format!("{base} lon_0={lon0} x_0={a} y_0={b}")),
        _ => (format!("{base} lon_0={lon0} x_0=0 y_0=0"), format!("{base} lon_0={lon0} x_0={a} y_0={b}")),
    };
    let pts = raw
        .iter()
        .map(|(sel, u, _)| {
            let (z, t) = (zsel(u[4]), tsel(u[5]));
            if fwd {
                let (dlon, lat): (f64, f64) = match sel {
                    // around the forward strip limit of tmerc, the opposite pole of lcc, the antipode of laea
                    0..=3 => (sgn(u[2]) * lerp(u[0], 70.0, 95.0).to_radians(), lerp(u[1], -12.0, 12.0).to_radians()),
                    4 => (lerp(u[0], -PI, PI), sgn(u[2]) * (FRAC_PI_2 - [0.0, 5.0e-11, 2.0e-10, 1.0e-6][split(u[1], 4).0])),
                    5 => (sgn(u[2]) * (PI - lerp(u[0], 0.0, 0.02)), lerp(u[1], -FRAC_PI_2, FRAC_PI_2)),
                    _ => (lerp(u[0], -PI, PI), lerp(u[1], -FRAC_PI_2, FRAC_PI_2)),
                };
                p4(dlon, lat, z, t)
            } else {
                let side = sgn(u[2]);
                let (k, r) = split(u[3], 8);
                let eps = lerp(r, -1.0e-3, 1.0e-3);
                let (x, y): (f64, f64) = match (sel, k) {
                    // densely around the limit: 0.8 .. 1.2 of it, both sides
                    (0..=3, _) => (side * limit * lerp(u[0], 0.8, 1.2), lerp(u[1], -1.0e7, 1.0e7)),
                    // around limit -+ |x_0| (reduced easting) and around the limit in the raw easting
                    (4 | 5, 0..=3) => (side * (limit + sgn(r) * a.abs()) * (1.0 + eps), lerp(u[1], -1.0e7, 1.0e7)),
                    (4 | 5, _) => (side * limit * (1.0 + eps) - a, lerp(u[1], -1.0e7, 1.0e7)),
                    // the same on a circle (laea disc) and relative to y_0
                    (6, _) => {
                        let (rad, az) = (limit * lerp(u[0], 0.8, 1.2), u[1] * 2.0 * PI);
                        (rad * az.sin(), rad * az.cos())
                    }
                    (7, _) => {
                        let (rad, az) = ((limit + side * a.hypot(b)) * (1.0 + eps), u[1] * 2.0 * PI);
                        (rad * az.sin(), rad * az.cos())
                    }
                    _ => (lerp(u[0], -3.0e7, 3.0e7), lerp(u[1], -3.0e7, 3.0e7)),
                };
                p4(x, y, z, t)
            }
        })
        .collect();
    ShiftCase { fam: fam.to_string(), zero, shifted, fwd, a: F(a), b: F(b), lon0: F(lon0), pts }
}

fn shift_strategy() -> impl Strategy<Value = ShiftCase> {
    (
        any::<u16>(),
        [any::<u16>(), any::<u16>(), any::<u16>(), any::<u16>()],
        [unit(), unit(), unit(), unit()],
        any::<bool>(),
        prop::collection::vec(raw_tup(), 1..=16),
    )
        .prop_map(|(f, v, vf, fwd, raw)| build_shift(f, &v, &vf, fwd, &raw))
}

/// (count, which elements are NaN) of a singleton application
fn pattern(ctx: &GridCtx, op: OpHandle, fwd: bool, c: Coor4D, what: &str) -> Result<(usize, [bool; 4], Coor4D), Failure> {
    let mut d = vec![c];
    let n = run_apply(ctx, op, fwd, &mut d, what)?;
    Ok((n, [d[0][0].is_nan(), d[0][1].is_nan(), d[0][2].is_nan(), d[0][3].is_nan()], d[0]))
}

fn check_shift(case: &ShiftCase, rec: &mut Rec) -> CaseResult {
    let mut ctx = new_ctx(&None)?;
    let mut inst = |def: &str| -> Result<OpHandle, Failure> {
        match try_op(&mut ctx, def) {
            Err(p) => Err(Failure { key: format!("panic-instantiate@{}", p.sig()), msg: format!("instantiating '{def}' panics: {} at {}:{}", p.msg, p.file, p.line) }),
            Ok(Err(e)) => Err(Failure { key: format!("catalogue-definition-rejected@{}", case.fam), msg: format!("catalogue definition '{def}' rejected: {e:?}") }),
            Ok(Ok(op)) => Ok(op),
        }
    };
    let op0 = inst(&case.zero)?;
    let op1 = inst(&case.shifted)?;
    let dir = dirname(case.fwd);
    rec.class(&format!("{}-{dir}", case.fam));
    let (a, b, l0) = (case.a.0, case.b.0, case.lon0.0.to_radians());
    let mut differing_outcomes = [false; 2];
    for p in &case.pts {
        // the shifted input, and the unshifted one recomputed by the very subtraction the operator
        // performs (x - x_0, y - y_0, lon - lon_0): both operators then see bit-identical reduced values
        let (in1, in0) = if case.fwd {
            let lon1 = l0 + p[0].0;
            (Coor4D([lon1, p[1].0, p[2].0, p[3].0]), Coor4D([lon1 - l0, p[1].0, p[2].0, p[3].0]))
        } else {
            let (x1, y1) = (p[0].0 + a, p[1].0 + b);
            (Coor4D([x1, y1, p[2].0, p[3].0]), Coor4D([x1 - a, y1 - b, p[2].0, p[3].0]))
        };
        let (n0, nan0, out0) = pattern(&ctx, op0, case.fwd, in0, &case.zero)?;
        // guard: the outcome of the unshifted operator must not change in a tiny neighbourhood
        // (tmerc's northing goes through a precomputed offset, not through y - y_0)
        let mut stable = true;
        for (sx, sy) in [(1.0, 0.0), (-1.0, 0.0), (0.0, 1.0), (0.0, -1.0)] {
            let mut q = in0;
            let (hx, hy) = if case.fwd { (1.0e-9, 1.0e-9) } else { (1.0e-9 * q[0].abs() + 1.0e-3, 1.0e-9 * q[1].abs() + 1.0e-3) };
            q[0] += sx * hx;
            q[1] += sy * hy;
            let (nq, nanq, _) = pattern(&ctx, op0, case.fwd, q, &case.zero)?;
            stable &= nq == n0 && nanq == nan0;
        }
        if !stable {
            rec.count("excluded_unstable_neighbourhood", 1);
            continue;
        }
        let (n1, nan1, out1) = pattern(&ctx, op1, case.fwd, in1, &case.shifted)?;
        differing_outcomes[n0.min(1)] = true;
        rec.count(if n0 == 0 { "points_rejected_by_both" } else { "points_accepted_by_both" }, 1);
        vensure!(
            n0 == n1 && nan0 == nan1,
            format!("shift-pattern-differs@{}-{dir}", case.fam),
            "the counted / NaN pattern does not move with the {}:\n '{}' ({dir}) on {} -> count {n0}, {}\n '{}' ({dir}) on {} -> count {n1}, {}\n (second input = first input shifted by {})",
            if case.fwd { "central meridian" } else { "false origin" },
            case.zero, fmt_c4(&in0), fmt_c4(&out0), case.shifted, fmt_c4(&in1), fmt_c4(&out1),
            if case.fwd { format!("lon_0 = {}°", case.lon0.0) } else { format!("(x_0, y_0) = ({a}, {b})") }
        );
    }
    if differing_outcomes[0] && differing_outcomes[1] {
        rec.nontrivial(&(&case.shifted, case.fwd, case.pts.iter().map(|p| [p[0].0.to_bits(), p[1].0.to_bits()]).collect::<Vec<_>>()));
    }
    Ok(())
}

// ---- lists of several loaded grids: proper hits first, then the half-cell margins ----------------

#[derive(Clone, Debug, Serialize, Deserialize)]
struct MultiCase {
    /// operator configuration (fam / def / tag as in the catalogue; the grids are in `grids`)
    op: OpCfg,
    /// the loaded grids, in the order of the operator's `grids=` list
    grids: Vec<GridSpec>,
    fwd: bool,
    tups: Vec<Tup>,
    /// where each tuple lies: "proper", "margin-first", "margin-middle", "margin-last", "outside", "edge"
    place: Vec<String>,
}

/// 1: within the bounds of `g` extended by `ext` cells on every side
fn within(g: &GridSpec, lon: f64, lat: f64, ext: f64) -> bool {
    lon >= g.lon_w as f64 - ext * g.dlon() && lon <= g.lon_e() + ext * g.dlon() && lat >= g.lat_s as f64 - ext * g.dlat() && lat <= g.lat_n() + ext * g.dlat()
}

/// Classify a position (degrees) against a grid list from the documented look-up rule: the first grid
/// containing the point, else the first grid having it within its half-cell margin, else nothing.
/// Guard bands of 0.05 cell around the proper borders and the outer margin borders give `Edge`.
fn classify_multi(grids: &[GridSpec], lon: f64, lat: f64, null: bool) -> (Cls, String) {
    if grids.iter().any(|g| within(g, lon, lat, -0.05)) {
        return (Cls::Interior, "proper".into());
    }
    if let Some(k) = grids.iter().position(|g| within(g, lon, lat, 0.45)) {
        // maybe proper (within the guard band of a border), else in a margin: a hit either way
        let place = if grids.iter().any(|g| within(g, lon, lat, 0.05)) {
            "border"
        } else if k == 0 {
            "margin-first"
        } else if k + 1 == grids.len() {
            "margin-last"
        } else {
            "margin-middle"
        };
        return (Cls::Interior, place.into());
    }
    if grids.iter().all(|g| !within(g, lon, lat, 0.55)) {
        return (if null { Cls::NullPass } else { Cls::Far }, "outside".into());
    }
    (Cls::Edge, "edge".into())
}

/// Inverse 2-band gridshift iterates and looks the grids up again at positions moved by about one
/// correction. Where the grid selected by the documented rule can change within that distance and the
/// grids disagree, the combined correction field jumps and the fixed-point iteration need not converge
/// (the property's own "non-convergence" class). True iff the whole neighbourhood of the point
/// (3 x the largest generated correction, 1 arcsec, i.e. 0.001 degree, plus the 0.05 cell guard band:
/// `eps` = 0.06 cell for cells >= 0.25 degree) selects the same grid: the same grid proper with no
/// earlier grid proper nearby, or the same margin grid with no grid proper and no earlier margin nearby.
fn stable_selection(grids: &[GridSpec], lon: f64, lat: f64) -> bool {
    let eps = 0.06;
    if let Some(k) = grids.iter().position(|g| within(g, lon, lat, -eps)) {
        return grids[..k].iter().all(|g| !within(g, lon, lat, eps));
    }
    if grids.iter().any(|g| within(g, lon, lat, eps)) {
        return false;
    }
    match grids.iter().position(|g| within(g, lon, lat, 0.5 - eps)) {
        Some(k) => grids[..k].iter().all(|g| !within(g, lon, lat, 0.5 + eps)),
        None => false,
    }
}

const MULTI_FAMILIES: [&str; 4] = ["gridshift2", "gridshift1", "deflection", "deformation"];

fn build_multi(f: u16, v: &[u16; 4], vf: &[f64; 4], fwd: bool, raw: &[RawTup]) -> MultiCase {
    let famx = MULTI_FAMILIES[pick(f, 4)];
    let bands = match famx {
        "gridshift2" => 2u8,
        "deformation" => 3,
        _ => 1,
    };
    // grid A: 1 degree spacing, 4..7 nodes each way; B relative to A: disjoint / overlapping / nested; optional C to the north
    let a = GridSpec {
        name: "c10.m0".into(),
        lat_s: -50 + pick(v[0], 91) as i32,
        lon_w: -140 + pick(v[1], 241) as i32,
        rows: 4 + split(vf[0], 4).0 as u8,
        cols: 4 + split(split(vf[0], 4).1, 4).0 as u8,
        dlat_i: 2,
        dlon_i: 2,
        bands,
        pattern: 0,
        amp: F(1.0),
    };
    let (rel, r) = split(vf[1], 4);
    let (brows, bcols) = (3 + split(r, 3).0 as u8, 3 + split(split(r, 3).1, 3).0 as u8);
    let (bi, bj) = (split(vf[2], 3).0 as u8, split(split(vf[2], 3).1, 3).0 as u8);
    let b = match rel {
        // disjoint, to the east (a gap of 3 degrees), shifted a little in latitude
        0 => GridSpec { name: "c10.m1".into(), lat_s: a.lat_s + (v[2] % 3) as i32 - 1, lon_w: a.lon_e() as i32 + 3, rows: brows + 1, cols: bcols + 1, dlat_i: bi, dlon_i: bj, amp: F(2.0), ..a.clone() },
        // overlapping the north-east part of A
        1 => GridSpec { name: "c10.m1".into(), lat_s: a.lat_s + 2, lon_w: a.lon_w + 2, rows: brows + 2, cols: bcols + 2, dlat_i: bi.max(1), dlon_i: bj.max(1), amp: F(2.0), ..a.clone() },
        // nested inside A (finer spacing, at most 2 degrees wide)
        2 => GridSpec { name: "c10.m1".into(), lat_s: a.lat_s + 1, lon_w: a.lon_w + 1, rows: brows, cols: bcols, dlat_i: bi.min(1), dlon_i: bj.min(1), amp: F(2.0), ..a.clone() },
        // touching: B starts exactly where A ends (shared border line)
        _ => GridSpec { name: "c10.m1".into(), lat_s: a.lat_s, lon_w: a.lon_e() as i32, rows: a.rows, cols: bcols + 1, dlat_i: 2, dlon_i: bj, amp: F(2.0), ..a.clone() },
    };
    let mut grids = vec![a.clone(), b.clone()];
    if v[3] % 2 == 0 {
        let top = a.lat_n().max(b.lat_n()).ceil() as i32;
        grids.push(GridSpec { name: "c10.m2".into(), lat_s: top + 2, lon_w: a.lon_w + (v[3] % 5) as i32 - 2, rows: 3 + (v[3] % 3) as u8, cols: 4, dlat_i: (v[2] % 3) as u8, dlon_i: 2, amp: F(0.5), ..a.clone() });
    }
    // order of the list: any rotation / reversal, so that the margin hit comes from the first, a middle or the last grid
    let n = grids.len();
    grids.rotate_left(pick(v[2], n));
    if split(vf[3], 2).0 == 1 {
        grids.reverse();
    }
    let null = split(split(vf[3], 2).1, 2).0 == 1;
    let list = grids.iter().map(|g| g.name.clone()).collect::<Vec<_>>().join(",");
    let nulltxt = if null { ",@null" } else { "" };
    let (fam, def, tag) = match famx {
        "gridshift2" => ("gridshift", format!("gridshift grids={list}{nulltxt}"), "datum"),
        "gridshift1" => ("gridshift", format!("gridshift grids={list}{nulltxt}"), "geoid"),
        "deflection" => ("deflection", format!("deflection grids={list}{nulltxt} ellps=GRS80"), ""),
        _ => {
            if v[0] % 2 == 0 {
                ("deformation", format!("deformation t_epoch=2010 grids={list}{nulltxt} ellps=GRS80"), "epoch")
            } else {
                ("deformation", format!("deformation dt=2.5 grids={list}{nulltxt} ellps=GRS80"), "dt")
            }
        }
    };
    let op = OpCfg { fam: fam.into(), def, tag: format!("{tag}{}", if null { " null" } else { "" }).trim().to_string(), num: vec![], grid: None };
    let mut tups = vec![];
    let mut place = vec![];
    for (sel, u, m) in raw {
        let g = &grids[split(u[2], n).0];
        let (dlat, dlon) = (g.dlat(), g.dlon());
        let (lat_s, lat_n, lon_w, lon_e) = (g.lat_s as f64, g.lat_n(), g.lon_w as f64, g.lon_e());
        let (side, r) = split(u[3], 4);
        // a point at `off` cells beyond side `side` of grid g, the other coordinate anywhere along that side (+- 0.4 cell)
        let beyond = |off: f64| -> (f64, f64) {
            let along_lat = lerp(u[1], lat_s - 0.4 * dlat, lat_n + 0.4 * dlat);
            let along_lon = lerp(u[0], lon_w - 0.4 * dlon, lon_e + 0.4 * dlon);
            match side {
                0 => (lon_w - off * dlon, along_lat),
                1 => (lon_e + off * dlon, along_lat),
                2 => (along_lon, lat_s - off * dlat),
                _ => (along_lon, lat_n + off * dlat),
            }
        };
        let (lon, lat) = match sel {
            0 | 1 => (lerp(u[0], lon_w + 0.06 * dlon, lon_e - 0.06 * dlon), lerp(u[1], lat_s + 0.06 * dlat, lat_n - 0.06 * dlat)),
            // the half-cell margin of this grid
            2..=6 => beyond(lerp(r, 0.06, 0.44)),
            7 => beyond(lerp(r, 0.6, 15.0)),
            8 => beyond(lerp(r, -0.06, 0.6)),
            _ => (lerp(u[0], -180.0, 180.0), lerp(u[1], -80.0, 80.0)),
        };
        let (mut cls, mut pl) = classify_multi(&grids, lon, lat, null);
        if famx == "gridshift2" && !fwd && cls == Cls::Interior && !stable_selection(&grids, lon, lat) {
            cls = Cls::Edge;
            pl = format!("excluded-unstable-selection({pl})");
        }
        let p = match famx {
            "gridshift2" => p4(lon.to_radians(), lat.to_radians(), zsel(u[4]), tsel(u[5])),
            "gridshift1" => p4(lon.to_radians(), lat.to_radians(), lerp(u[4], -500.0, 5000.0), tsel(u[5])),
            "deflection" => p4(lat, lon, zsel(u[4]), tsel(u[5])),
            _ => {
                let c = El::grs80().cartesian(lon.to_radians(), lat.to_radians(), lerp(u[4], -100.0, 3000.0));
                // epochs different from t_epoch, so that the deformation is not zero
                p4(c[0], c[1], c[2], [2020.0, 1999.5, 2030.25][split(u[5], 3).0])
            }
        };
        let mask = if *m < 20 { 0 } else { (*m - 16) & 15 };
        tups.push(Tup { p, mask, cls, via_fwd: false });
        place.push(pl);
    }
    MultiCase { op, grids, fwd, tups, place }
}

fn multi_strategy() -> impl Strategy<Value = MultiCase> {
    (
        any::<u16>(),
        [any::<u16>(), any::<u16>(), any::<u16>(), any::<u16>()],
        [unit(), unit(), unit(), unit()],
        any::<bool>(),
        prop::collection::vec(raw_tup(), 1..=12),
    )
        .prop_map(|(f, v, vf, fwd, raw)| build_multi(f, &v, &vf, fwd, &raw))
}

fn check_multi(case: &MultiCase, rec: &mut Rec) -> CaseResult {
    let cfg = &case.op;
    let fwd = case.fwd;
    let tr = traits(cfg, fwd);
    let mut ctx = GridCtx::new();
    for g in &case.grids {
        if let Err(e) = ctx.add_grid_bytes(&g.name, g.text().as_bytes()) {
            vfail!("harness-grid-rejected", "generated Gravsoft grid {g:?} rejected by the library's reader: {e:?}");
        }
    }
    let op = match try_op(&mut ctx, &cfg.def) {
        Err(p) => vfail!(format!("panic-instantiate@{}", p.sig()), "instantiating '{}' panics: {} at {}:{}", cfg.def, p.msg, p.file, p.line),
        Ok(Err(e)) => vfail!(format!("catalogue-definition-rejected@{}", cfg.fam), "catalogue definition '{}' rejected: {e:?}", cfg.def),
        Ok(Ok(op)) => op,
    };
    let label = format!("{}-{}{}", cfg.fam, dirname(fwd), if cfg.tag.contains("null") { "-null" } else { "" });
    rec.class(&label);
    let geometry = || case.grids.iter().map(|g| format!("{}: lat {}..{} step {}, lon {}..{} step {}", g.name, g.lat_s, g.lat_n(), g.dlat(), g.lon_w, g.lon_e(), g.dlon())).collect::<Vec<_>>().join("; ");
    let rekey = |mut f: Failure| {
        f.key = f.key.replacen('@', "@multigrid-", 1);
        f.msg = format!("{}\n grid list (in look-up order): {}", f.msg, geometry());
        f
    };
    if tr.one_way_inverse {
        return Ok(());
    }
    let mut inputs = vec![];
    let mut mixed = [false; 2];
    let iterating_inverse = cfg.fam == "gridshift" && cfg.tag.split(' ').any(|x| x == "datum") && !fwd;
    for (t, pl) in case.tups.iter().zip(&case.place) {
        // the strong clauses of an iterating inverse need a stable grid selection around the point
        // (recomputed here from the tuple itself, so that stored cases are judged by the same rule)
        let mut t = t.clone();
        if iterating_inverse && t.cls == Cls::Interior && !stable_selection(&case.grids, t.p[0].0.to_degrees(), t.p[1].0.to_degrees()) {
            t.cls = Cls::Edge;
            rec.count("excluded_unstable_selection_downgraded_in_oracle", 1);
        }
        let t = &t;
        let mut before = c4(&t.p);
        for k in 0..4 {
            if t.mask & (1 << k) != 0 {
                before[k] = f64::NAN;
            }
        }
        inputs.push(before);
        let mut d = vec![before];
        let count = run_apply(&ctx, op, fwd, &mut d, &cfg.def)?;
        rec.count(&format!("{label}:{pl}"), 1);
        mixed[count.min(1)] = true;
        if let Some(f) = check_tuple(cfg, fwd, &tr, t, &before, &d[0], count) {
            return Err(rekey(f));
        }
        // a hit (grid proper or half-cell margin) must actually apply the grid's correction, which the
        // generated grids keep away from zero: the worked-on elements cannot all come back bit-identical
        if t.cls == Cls::Interior && !has_nan(&before) {
            let changed = (0..4).any(|i| tr.w[i] && !bits_eq(before[i], d[0][i]));
            vensure!(
                changed,
                format!("hit-not-shifted@multigrid-{}-{}", cfg.fam, dirname(fwd)),
                "the tuple lies inside the coverage of the grid list ({pl}) but comes back unshifted (count {count})\n definition '{}' ({})\n input  {}\n output {}\n grid list (in look-up order): {}",
                cfg.def, dirname(fwd), fmt_c4(&before), fmt_c4(&d[0]), geometry()
            );
        }
    }
    // the batch
    let mut batch = inputs.clone();
    let n = batch.len();
    let count = run_apply(&ctx, op, fwd, &mut batch, &cfg.def)?;
    {
        let must = case
            .tups
            .iter()
            .zip(&inputs)
            .filter(|(t, c)| t.cls == Cls::Interior && !has_nan(c) && !(iterating_inverse && !stable_selection(&case.grids, t.p[0].0.to_degrees(), t.p[1].0.to_degrees())))
            .count();
        let must_not = case.tups.iter().zip(&inputs).filter(|(t, c)| t.cls == Cls::Far && !has_nan(c)).count();
        let nan_free_out = batch.iter().filter(|c| !has_nan(c)).count();
        vensure!(count <= n, format!("count-exceeds-len@multigrid-{label}"), "'{}' reports {count} successes for {n} tuples", cfg.def);
        vensure!(
            count >= must && count <= n - must_not && nan_free_out <= count,
            format!("batch-count@multigrid-{}-{}", cfg.fam, dirname(fwd)),
            "'{}' ({}) on a batch of {n}: count {count}, but {must} NaN-free tuples lie inside coverage, {must_not} clearly outside (no @null), {nan_free_out} come back NaN-free\n input {:?}\n grid list: {}",
            cfg.def, dirname(fwd), inputs.iter().map(fmt_c4).collect::<Vec<_>>(), geometry()
        );
    }
    if mixed[0] && mixed[1] || case.place.iter().any(|p| p.starts_with("margin")) {
        rec.nontrivial(&(&cfg.def, fwd, inputs.iter().map(|c| [c[0].to_bits(), c[1].to_bits(), c[2].to_bits()]).collect::<Vec<_>>(), case.grids.iter().map(|g| (g.lat_s, g.lon_w, g.rows, g.cols)).collect::<Vec<_>>()));
    }
    Ok(())
}

// ---- the formulas' own singular points ---------------------------------------------------------------
//
// "At the edge of and far outside the domain" for the 3-D operators means the points where their own
// denominators vanish. They are single exact floating point relations between the elements of a tuple
// (a height equal to minus a latitude dependent radius of curvature, a point on the axis of rotation,
// an exactly antipodal pair) which no random or grid generator produces, so they are constructed here,
// with the library's public ellipsoid functions, for every ellipsoid of the catalogue and not only for the
// one the operator is parameterised with. The oracle does not need to know which points are singular:
// on every tuple  uncounted => NaN,  counted => NaN-free (for a NaN-free input) and, where the operator is
// nowhere an identity, counted => not bit-identical in the elements worked on.

#[derive(Clone, Debug, Serialize, Deserialize)]
struct SingCase {
    op: OpCfg,
    fwd: bool,
    /// (label of the point class, input tuple)
    tups: Vec<(String, P4)>,
    /// the operator has non-zero parameters: a counted tuple cannot come back bit-identical in the
    /// elements the operator works on
    moves: bool,
}

/// (parameters, the ellipsoid the formulas are evaluated on: ellps_0 when the pair is given, else ellps,
/// else the context default GRS80)
const MOLO_PARAMS: [(&str, &str); 8] = [
    ("ellps_0=WGS84 ellps_1=intl dx=84.87 dy=96.49 dz=116.95", "WGS84"),
    ("ellps_0=intl ellps_1=GRS80 dx=-84.87 dy=-96.49 dz=-116.95", "intl"),
    ("ellps_0=bessel ellps_1=WGS84 dx=582 dy=105 dz=414", "bessel"),
    ("ellps=GRS80 da=-251 df=-0.000014192702 dx=-87 dy=-96 dz=-120", "GRS80"),
    ("ellps=intl da=251 df=0.000014192702 dx=87 dy=96 dz=120", "intl"),
    ("da=-251 df=-0.000014192702 dx=-10 dy=20 dz=30", "GRS80"),
    ("ellps=GRS67 dx=10 dy=-20 dz=30", "GRS67"),
    ("ellps=bessel dx=1 dy=2 dz=3 da=100 df=0.00001", "bessel"),
];

const SING_LATS: [f64; 18] = [
    0.7, 0.0, -0.0, 1.0e-9, 0.1, 0.5, std::f64::consts::FRAC_PI_4, 1.0, 1.2, 1.5, 1.5707, FRAC_PI_2, -FRAC_PI_2, -0.7, -1.3, 1.570_796_326_794_896_3, 2.0, -3.0,
];

/// latitude number k: the special values first, then a low-discrepancy sequence over [-pi/2, pi/2]
fn sing_lat(k: usize) -> f64 {
    if k < SING_LATS.len() {
        return SING_LATS[k];
    }
    let x = ((k - SING_LATS.len() + 1) as f64 * 0.618_033_988_749_894_9).fract();
    -FRAC_PI_2 + PI * x
}

/// Tuples at (lon, lat) whose height makes `M + h` or `N + h` exactly zero (and 1 ulp off) for every
/// ellipsoid of the catalogue, between two ordinary tuples. `own` is the operator's ellipsoid.
fn radius_height_tuples(lon: f64, lat: f64, own: &str, t: f64) -> Vec<(String, P4)> {
    let pole = if lat.abs() == FRAC_PI_2 { "exact pole, " } else { "" };
    let mut v = vec![(format!("{pole}ordinary height"), p4(lon, lat, 100.0, t))];
    for e in ELL {
        let el = Ellipsoid::named(e).expect("catalogue ellipsoid");
        let m = el.meridian_radius_of_curvature(lat);
        let n = el.prime_vertical_radius_of_curvature(lat);
        let who = if e == own { "operator's" } else { "another" };
        v.push((format!("{pole}h = -M(lat), {who} ellipsoid"), p4(lon, lat, -m, t)));
        v.push((format!("{pole}h = -N(lat), {who} ellipsoid"), p4(lon, lat, -n, t)));
        if e == own {
            for h in [(-m).next_up(), (-m).next_down(), (-n).next_up(), (-n).next_down()] {
                v.push((format!("{pole}h = -M(lat) or -N(lat) +- 1 ulp"), p4(lon, lat, h, t)));
            }
        }
    }
    v.push((format!("{pole}ordinary height"), p4(-lon, -lat, 250.0, t)));
    v
}

const MOLO_WRAPS: usize = 4;
const SING_LONS: [f64; 3] = [0.2, -2.5, 0.0];

fn sing_molodensky(i: usize) -> SingCase {
    let (par, own) = MOLO_PARAMS[i % MOLO_PARAMS.len()];
    let r = i / MOLO_PARAMS.len();
    let ab = r % 2 == 1;
    let r = r / 2;
    let wrap = r % MOLO_WRAPS;
    let r = r / MOLO_WRAPS;
    let fwd = r % 2 == 0;
    let r = r / 2;
    let lon = SING_LONS[r % SING_LONS.len()];
    let lat = sing_lat(r / SING_LONS.len());
    let ab_txt = if ab { " abridged" } else { "" };
    let def = match wrap {
        0 => format!("molodensky {par}{ab_txt}"),
        1 => format!("molodensky inv {par}{ab_txt}"),
        2 => format!("noop | molodensky {par}{ab_txt} | noop"),
        _ => format!("noop | molodensky{ab_txt} {par} inv | noop"),
    };
    let op = OpCfg { fam: "molodensky".into(), def, tag: if ab { "abridged" } else { "" }.into(), num: vec![], grid: None };
    SingCase { op, fwd, tups: radius_height_tuples(lon, lat, own, tsel((i % 8) as f64 / 8.0 + 0.01)), moves: true }
}

/// cart: forward at the heights above (h = -N(lat) is a point on the axis of rotation, h = -M(lat) a point of the
/// evolute), inverse at the centre of the earth, on the axis and in the equatorial plane at tiny radii
fn sing_cart(i: usize, nlat: usize) -> SingCase {
    let ell = ELL[i % ELL.len()];
    let r = i / ELL.len();
    let op = OpCfg { fam: "cart".into(), def: format!("cart ellps={ell}"), tag: String::new(), num: vec![], grid: None };
    if r < nlat {
        let mut tups = radius_height_tuples(SING_LONS[r % 3], sing_lat(r), ell, 2020.0);
        let el = Ellipsoid::named(ell).expect("catalogue ellipsoid");
        // the centre of the earth in geographic coordinates
        tups.push(("geographic image of the centre".into(), p4(0.3, FRAC_PI_2, -el.semiminor_axis(), 2020.0)));
        tups.push(("geographic image of the centre".into(), p4(0.3, 0.0, -el.semimajor_axis(), 2020.0)));
        return SingCase { op, fwd: true, tups, moves: true };
    }
    let el = Ellipsoid::named(ell).expect("catalogue ellipsoid");
    let (a, b) = (el.semimajor_axis(), el.semiminor_axis());
    let cutoff = a * 1.0e-16;
    let tiny = [1.0e-300, 1.0e-12, cutoff.next_down(), cutoff, cutoff.next_up(), 1.0e-9, 1.0e-6];
    let mut tups: Vec<(String, P4)> = vec![];
    match r - nlat {
        0 => {
            for (x, y, z) in [(0.0, 0.0, 0.0), (-0.0, 0.0, -0.0), (0.0, -0.0, 0.0), (0.0, 0.0, -0.0), (-0.0, -0.0, -0.0)] {
                tups.push(("centre of the earth".into(), p4(x, y, z, 2020.0)));
            }
            for z in [1.0e-300, 1.0e-9, 1.0, b.next_down(), b, b.next_up(), 6.4e6, 1.0e9] {
                for s in [1.0, -1.0] {
                    tups.push(("on the axis of rotation".into(), p4(0.0, 0.0, s * z, 2020.0)));
                    tups.push(("on the axis of rotation".into(), p4(-0.0, 0.0, s * z, 0.0)));
                }
            }
        }
        1 => {
            for p in tiny {
                for z in [0.0, -0.0, 1.0e-300, 1.0e-9, 1.0, b, -b, -1.0e-9] {
                    tups.push(("tiny distance from the axis".into(), p4(p, 0.0, z, 2020.0)));
                    tups.push(("tiny distance from the axis".into(), p4(-p * 0.6, p * 0.8, z, 1999.5)));
                }
            }
        }
        _ => {
            let es = el.eccentricity_squared();
            for p in tiny.into_iter().chain([1.0e-3, 1.0, 1.0e3, a * es, (a * es).next_up(), a]) {
                for z in [0.0, -0.0] {
                    for (cx, cy) in [(1.0, 0.0), (0.0, 1.0), (-1.0, 0.0), (0.6, -0.8)] {
                        tups.push(("equatorial plane, tiny radius".into(), p4(cx * p, cy * p, z, 2020.0)));
                    }
                }
            }
        }
    }
    SingCase { op, fwd: false, tups, moves: true }
}

/// geodesic: coincident and exactly antipodal pairs (inverse), zero and half-circumference distances (forward)
fn sing_geodesic(i: usize) -> SingCase {
    let ell = ELL[i % ELL.len()];
    let r = i / ELL.len();
    let rev = r % 2 == 1;
    let fwd = (r / 2) % 2 == 0;
    let op = OpCfg {
        fam: "geodesic".into(),
        def: format!("geodesic{} ellps={ell}", if rev { " reversible" } else { "" }),
        tag: if rev { "reversible" } else { "" }.into(),
        num: vec![],
        grid: None,
    };
    let el = Ellipsoid::named(ell).expect("catalogue ellipsoid");
    let (a, b) = (el.semimajor_axis(), el.semiminor_axis());
    let mut tups: Vec<(String, P4)> = vec![];
    if fwd {
        for lat in [0.0, 45.0, 90.0, -90.0, -33.3] {
            for az in [0.0, 90.0, 180.0, 33.0, -90.0] {
                for d in [0.0, -0.0, 1.0e-9] {
                    tups.push(("zero distance".into(), p4(lat, 12.0, az, d)));
                }
                for d in [PI * b, PI * a, 2.0 * PI * a, 2.0 * PI * b] {
                    tups.push(("half / full circumference".into(), p4(lat, -100.0, az, d)));
                }
            }
        }
    } else {
        for lat in [0.0, 45.0, -33.3, 90.0, -90.0, 89.999_999, 1.0e-12] {
            for lon in [0.0, 12.0, 180.0, -180.0] {
                tups.push(("coincident pair".into(), p4(lat, lon, lat, lon)));
                tups.push(("coincident pair (360 degrees apart)".into(), p4(lat, lon, lat, lon + 360.0)));
                tups.push(("exactly antipodal pair".into(), p4(lat, lon, -lat, lon + 180.0)));
                tups.push(("exactly antipodal pair".into(), p4(lat, lon, -lat, lon - 180.0)));
                tups.push(("antipodal pair off by 1e-13 degree".into(), p4(lat, lon, -lat + 1.0e-13, lon + 180.0 - 1.0e-13)));
            }
        }
        for (l1, l2) in [(0.0, 0.0), (10.0, -170.0), (0.0, 123.0), (77.0, 77.0)] {
            tups.push(("pole to pole".into(), p4(90.0, l1, -90.0, l2)));
            tups.push(("pole to pole".into(), p4(-90.0, l1, 90.0, l2)));
        }
    }
    SingCase { op, fwd, tups, moves: false }
}

fn check_sing(case: &SingCase, rec: &mut Rec) -> CaseResult {
    let cfg = &case.op;
    let fwd = case.fwd;
    let tr = traits(cfg, fwd);
    let mut ctx = new_ctx(&None)?;
    let op = match try_op(&mut ctx, &cfg.def) {
        Err(p) => vfail!(format!("panic-instantiate@{}", p.sig()), "instantiating '{}' panics: {} at {}:{}", cfg.def, p.msg, p.file, p.line),
        Ok(Err(e)) => vfail!(format!("catalogue-definition-rejected@{}", cfg.fam), "catalogue definition '{}' rejected: {e:?}", cfg.def),
        Ok(Ok(op)) => op,
    };
    let dir = dirname(fwd);
    let label = format!("{}-{dir}", cfg.fam);
    rec.class(&label);
    let inputs: Vec<Coor4D> = case.tups.iter().map(|t| c4(&t.1)).collect();
    let mut fails: Vec<Failure> = vec![];
    let mut outcomes = [false; 2];
    for ((kind, _), before) in case.tups.iter().zip(&inputs) {
        let mut d = vec![*before];
        let count = run_apply(&ctx, op, fwd, &mut d, &cfg.def)?;
        let after = d[0];
        let outcome = match (count, has_nan(&after)) {
            (0, true) => "NaN, not counted",
            (0, false) => "NaN-free, not counted",
            (_, true) => "NaN, counted",
            _ => "NaN-free, counted",
        };
        rec.count(&format!("{label}: {kind} => {outcome}"), 1);
        outcomes[usize::from(count == 1 && !has_nan(&after))] = true;
        let tup = Tup { p: to_p4(before), mask: 0, cls: Cls::Any, via_fwd: false };
        if let Some(f) = check_tuple(cfg, fwd, &tr, &tup, before, &after, count) {
            fails.push(f);
            continue;
        }
        let ctxt = || format!("definition '{}' ({dir}), point class '{kind}'\n input  {}\n output {}\n reported count {count} for this singleton", cfg.def, fmt_c4(before), fmt_c4(&after));
        if count == 1 && has_nan(&after) {
            fails.push(Failure {
                key: format!("counted-but-nan@{}-singular-point", cfg.fam),
                msg: format!("NaN-free input, the result carries NaN (the tuple could not be transformed) but it is counted as a success (property: overwritten with NaN *and not counted*)\n{}", ctxt()),
            });
        } else if case.moves && count == 1 && (0..4).all(|k| !tr.w[k] || bits_eq(before[k], after[k])) {
            fails.push(Failure {
                key: format!("counted-but-unchanged@{}-singular-point", cfg.fam),
                msg: format!("the tuple is counted as a success but every element the operator works on comes back bit-identical (the operator is nowhere an identity)\n{}", ctxt()),
            });
        }
    }
    // the batch: count <= len, every uncounted tuple carries NaN, every NaN tuple is uncounted
    let mut batch = inputs.clone();
    let n = batch.len();
    let count = run_apply(&ctx, op, fwd, &mut batch, &cfg.def)?;
    let desc = || format!("definition '{}' ({dir}), batch of {n} tuples: {:?}\n after: {:?}", cfg.def, inputs.iter().map(fmt_c4).collect::<Vec<_>>(), batch.iter().map(fmt_c4).collect::<Vec<_>>());
    if count > n {
        fails.push(Failure { key: format!("count-exceeds-len@{label}"), msg: format!("apply reports {count} successes for {n} tuples\n{}", desc()) });
    } else if fails.is_empty() {
        let nan_free_out = batch.iter().filter(|c| !has_nan(c)).count();
        if count < nan_free_out {
            fails.push(Failure { key: format!("batch-uncounted-not-nan@{label}"), msg: format!("{} tuples are not counted but only {} tuples carry NaN after the call (count {count})\n{}", n - count, n - nan_free_out, desc()) });
        }
        if count > nan_free_out {
            fails.push(Failure { key: format!("counted-but-nan@{}-singular-point", cfg.fam), msg: format!("count {count}, but only {nan_free_out} of the {n} NaN-free input tuples come back without NaN\n{}", desc()) });
        }
    }
    // every case consists of constructed singular points; distinct by definition, direction and input bits
    rec.nontrivial(&(&cfg.def, fwd, inputs.iter().map(|c| [c[0].to_bits(), c[1].to_bits(), c[2].to_bits(), c[3].to_bits()]).collect::<Vec<_>>()));
    if outcomes[0] && outcomes[1] {
        rec.count("batches_mixing_failure_and_success", 1);
    }
    let deferred = fails.iter().filter(|f| REGISTERED.contains(&f.key.as_str())).count();
    if deferred > 0 {
        rec.count("violations_of_registered_findings_deferred", deferred as u64);
    }
    choose(fails)
}

// ---- main ----------------------------------------------------------------------------------------

const GRID_FAMILIES: [&str; 3] = ["gridshift", "deflection", "deformation"];

fn main() {
    let mut run = Run::init("C10");
    run.assume("domain classes: 'Interior' is the documented domain conservatively shrunk (tmerc/utm: |lon-lon_0|<=60°, |lat|<=89°; btmerc: 3°; merc: |lat|<=85°; lcc: up to 89° on the apex side and 60° beyond the equator, plus the apex pole itself, the apex hemisphere being the sign of n = ln(m1/m2)/ln(t1/t2) computed in the harness; exact poles (and poles - 1e-11 rad) are also interior for tmerc/utm/btmerc/butm and for laea when within 150° of the centre; laea: within 150° of the centre, and (oblique / equatorial aspects) 0.05°..8° from the antipode of the centre in all azimuths; omerc/somerc: 3° around the centre; grids: inside the nominal bounds shrunk by 0.1 cell + 0.01°; cart inv: geocentric radius 6.34e6..2e7 m incl. the axis; geodesic: |lat|<=89°, 1 m..19000 km, inverse separation 0.001°..170°); 'Far' only where the code declares a limit (tmerc strip: normalised easting > 2.6234, taken at |lat|<=3° and 87..93° from the central meridian, the inverse limit is asserted directly from the source's constant: |x-x_0| <= 2.623395162778·k_0·a·Qn·(1-1e-9) must be counted and finite, >= ·(1+1e-9) NaN-marked and uncounted, on both sides, for x_0 in {0, 500000, -3e6, -20000} and every utm zone, Qn from the published a, 1/f; laea disc: > 1.5e7 m from the false origin; lcc: the pole opposite the apex within the operator's 1e-10 rad; grids: more than 0.8 cell beyond the border, the half-cell margin being coverage); everything else gets only count<=len, 'uncounted => NaN', untouched axes and NaN propagation");
    run.assume("inverse-direction interior tuples of plane projections are images of interior geographic points under the library's own forward (so they are in the operator's range whatever its formulas); if that forward pre-step fails the tuple is skipped here and judged by the forward cases");
    run.assume("laea inverse (every aspect tests its domain explicitly): a NaN-free input that is counted must come back NaN-free, for inputs of every class incl. a dense +-1 % band around the rim radius 2·Rq in all azimuths (asserted; holds on the unchanged tree in quick and thorough); for all other operators such tuples are only tallied");
    run.assume("counting a NaN-in/NaN-out tuple as a success is not flagged; a NaN-free tuple outside the Interior class that is counted although its result carries NaN is only tallied (counter nanfree_in_nan_out_but_counted)");
    run.assume("no infinities are generated (IEEE hypot(inf, NaN) = inf would make the NaN clause unsound); an epoch of -0.0 is not generated for `deformation` (it adds +0.0 to the fourth element, so -0.0 would come back as +0.0: pedantic, excluded by construction)");
    run.assume("dependency table transcribed from the sources; left out: deflection with @null and a NaN position (undocumented), deformation with @null (pass-through: identity only), the epoch dependency of deformation with @null; geodesic/gravity/curvature/deflection (look-up helpers) are exempt from the untouched-axes clause; deformation `raw` replaces the fourth element by design");
    run.assume("grid lists consisting only of unavailable optional (@-prefixed) grids instantiate with an empty list (documented: optional grids do not block instantiation); every point is then outside coverage: without @null it must be NaN-marked and not counted, with @null passed through and counted (gridshift both directions, deflection, deformation both directions; one configuration in five)");
    run.assume("time dependent operators: one tuple epoch in four is exactly the t_epoch (deformation: 2010; helmert: 1988, 2010, and t_obs 2020) of the catalogue's configurations, in every coverage class; deformation is also instantiated with dt=0 exactly; a zero duration is an ordinary in-domain value (result = input, counted) inside coverage and changes nothing about the outside-coverage clause");
    run.assume("multi-grid, inverse 2-band gridshift (the only grid operator that looks the grids up again at moved positions): 'hit => counted, finite, shifted' is asserted only where the whole neighbourhood of the point (0.06 cell = 3 x the largest generated correction + guard band) selects the same grid by the documented rule; where the selection can change within one correction and the grids disagree the combined field jumps and non-convergence (NaN, uncounted) is the documented outcome: weak clauses only, counted as excluded-unstable-selection");
    run.assume("multi-grid: positions are classified in the harness from the grid headers with guard bands of 0.05 cell (inside any grid shrunk by 0.05 cell, or within 0.45 cell of some grid => hit; beyond 0.55 cell of every grid => outside; in between => edge, weak clauses only); generated node values and deformation durations are non-zero, so a hit cannot come back bit-identical");
    run.assume("stand-alone push/pop/stack steps act only inside a pipeline: reporting 0 with the data untouched is accepted for them; pipelines containing a one-way operator are only checked for count = min over the steps (data legitimately stays finite)");
    run.assume("origin-shift: the unshifted input is recomputed with the subtraction the operator itself performs (x - x_0, y - y_0, lon - lon_0), so both operators see bit-identical reduced values; points where the unshifted operator's outcome changes within 1e-9 relative (+1 mm) / 1e-9 rad are excluded (counter excluded_unstable_neighbourhood); only the pattern (count, which elements are NaN) is compared, values belong to C13");
    run.assume("singular points of the 3-D operators (sections singular-*): tuples are constructed with the library's public Ellipsoid functions so that a denominator of the documented formulas is exactly 0.0 (h = -M(lat), h = -N(lat) for each of the 5 catalogue ellipsoids, whichever the operator uses; X = Y = 0; exactly antipodal pairs) and 1 ulp off; the oracle does not rely on knowing which of them are singular for the operator: uncounted => NaN, counted => NaN-free (stronger than elsewhere: here a NaN result for a NaN-free input means the tuple could not be transformed, and the property says such a tuple is not counted), counted => not bit-identical in the worked-on elements for molodensky / cart with non-zero parameters (all three offsets of a non-zero datum shift cannot vanish together; a geographic <-> cartesian conversion never maps a tuple to itself); registered finding: molodensky NaN-marks its singular points but counts them");
    run.assume("pipeline count is compared with the minimum over the counts of the same steps instantiated stand-alone and applied one after the other to the same data (omit_* modifiers and macros belong to C03/C04)");

    // operators the catalogue does not know
    let covered = covered_names();
    let uncovered: Vec<&str> = geodesy::verif_hooks::builtin_operator_names().into_iter().filter(|n| !covered.contains(n)).collect();
    run.note("uncovered_operators", serde_json::json!(uncovered));
    run.note("catalogue_families", serde_json::json!(FAMILIES));

    // 1. every NaN subset (16) x family x 6 variants x direction x 4 interior points
    {
        let nf = FAMILIES.len();
        let total = nf * 6 * 2 * 4 * 16;
        run.enumerate(
            "nan-subsets",
            "every family x 6 configurations x both directions x 4 interior points (for the projections with a pole in their domain two of them are the pole itself and the pole - 1e-11 rad) x all 16 NaN subsets of the four elements, singleton application; non-trivial = subset neither empty nor full",
            total,
            move |i| {
                let fam = FAMILIES[i % nf];
                let r = i / nf;
                let var = r % 6;
                let fwd = (r / 6) % 2 == 0;
                let pt = (r / 12) % 4;
                let mask = (r / 48) as u8;
                let v = [(var * 10923 + 17) as u16, (var * 21845 + 5) as u16, (var * 13107 + 11) as u16, (var * 9362 + 3) as u16];
                let vf = [var as f64 / 6.0 + 0.01, 0.37, 0.61, 0.13 * var as f64];
                let u = [[0.31, 0.62, 0.45, 0.55, 0.27, 0.05], [0.83, 0.17, 0.71, 0.93, 0.52, 0.41], [0.5, 0.5, 0.02, 0.01, 0.9, 0.77], [0.25, 0.75, 0.6, 0.1, 0.4, 0.3]][pt];
                let mut c = build_case(fam, &v, &vf, fwd, &[(0, u, 0)]);
                c.tups[0].mask = mask;
                c
            },
            check,
        );
    }

    // 2. all families, random configurations, batches mixing all classes
    let n = run.scale(80_000, 1_200_000);
    run.section(
        "operators",
        "family (29, uniform) x configuration x direction x batch of 0..20 tuples, each drawn from {interior 50-60%, beyond a declared limit, edge, anywhere} with NaN in a random subset for half of them; every tuple applied as a singleton (clauses 1-5, 7, 8) and the batch as a whole (count bounds); non-trivial = batch mixing counted and uncounted tuples or a partial NaN subset; distinct by definition, direction and input bits",
        n,
        || case_strategy(&FAMILIES),
        check,
    );

    // 3. extra weight on the grid operators (coverage with / without @null, non-convergence)
    let n = run.scale(25_000, 400_000);
    run.section(
        "grid-operators",
        "gridshift (geoid / datum / non-contracting 'wild' grid / no grid available), deflection, deformation (t_epoch / dt / raw) on generated Gravsoft grids served by GridCtx, with and without @null and @optional-missing entries; tuples inside, around the border, beyond the half-cell margin, anywhere; one configuration in five lists only unavailable optional grids (empty grid list: everything is outside coverage)",
        n,
        || case_strategy(&GRID_FAMILIES),
        check,
    );

    // 4. pipelines with failing steps
    let n = run.scale(25_000, 400_000);
    run.section(
        "pipelines",
        "pipelines whose steps fail for part of the batch (utm strip after a datum shift, grid coverage then tmerc strip, laea disc then lcc, lcc opposite pole, one-way step applied inversely) compared with min over stand-alone step counts; stack underflow programs (push/pop/flip/roll/unroll/swap, legacy push/pop) in both directions must report 0 and NaN-mark every tuple; non-trivial = some step fails for part of the batch / underflow with operands",
        n,
        pipe_strategy,
        check_pipe,
    );

    // 4b. every stack instruction at every argument, one element short and on an empty stack
    {
        let all = all_stack_instructions();
        let ni = all.len();
        run.enumerate(
            "stack-underflow-all",
            "every stack instruction (roll/unroll for all |n| < m <= 6 incl. n = 0 and +-(m-1), pop/flip lists of length 1..4 over 1..4, 15 legacy pop subsets, swap) x stack depth {one too shallow, empty} x both directions x {no tail, addone, helmert}: must report 0 and NaN-mark every tuple",
            ni * 2 * 2 * 3,
            move |i| {
                let ins = &all[i % ni];
                let r = i / ni;
                let depth = if r % 2 == 0 { ins.need() - 1 } else { 0 };
                let fwd = (r / 2) % 2 == 0;
                let tail = (r / 4) as u8;
                PipeCase {
                    kind: "stack-underflow".into(),
                    steps: underflow_program(ins, depth, fwd, tail),
                    grid: None,
                    fwd,
                    tups: vec![p4(1.0, 2.0, 3.0, 4.0), p4(-5.5, 6.25, 7.0, 2020.0)],
                    underflow: true,
                }
            },
            check_pipe,
        );
    }

    // 4c. tuple epochs exactly equal to t_epoch (and dt = 0 exactly), in every coverage class
    {
        const SELS: [u8; 5] = [0, 2, 4, 6, 8]; // inside, inside, outside, border, anywhere
        let total = 30 * 2 * SELS.len() * 3;
        run.enumerate(
            "epoch-equals-t_epoch",
            "deformation (30 configurations: t_epoch=2010 / dt=2.5 / dt=0 x raw x @null x grid / no grid) x both directions x {inside, outside coverage, border, anywhere} x 3 points, the tuple epoch being exactly 2010.0 = t_epoch: same clauses as everywhere (outside without @null => NaN, not counted)",
            total,
            move |i| {
                let var = i % 30;
                let r = i / 30;
                let fwd = r % 2 == 0;
                let sel = SELS[(r / 2) % SELS.len()];
                let pt = r / (2 * SELS.len());
                let v = [(var * 2185 + 1) as u16, (var * 13107 + 7) as u16, (var * 21845 + 3) as u16, (var * 9362 + 11) as u16];
                let vf = [(var % 8) as f64 / 8.0 + 0.03, 0.37, 0.61, 0.29];
                let u = [[0.31, 0.62, 0.45, 0.55, 0.27, 0.55], [0.83, 0.17, 0.71, 0.93, 0.52, 0.8], [0.5, 0.5, 0.02, 0.01, 0.9, 0.55]][pt];
                let mut c = build_case("deformation", &v, &vf, fwd, &[(sel, u, 0)]);
                c.tups[0].p[3] = F(2010.0);
                c
            },
            check,
        );
    }

    // 4d. lists of two or three loaded grids
    let n = run.scale(20_000, 300_000);
    run.section(
        "multi-grid",
        "gridshift (1 and 2 bands), deflection, deformation with a list of 2-3 loaded Gravsoft grids (disjoint, overlapping, nested, touching; any order) with / without @null, both directions; tuples inside a grid proper, inside the half-cell margin of the first / a middle / the last grid only, beyond all margins, around the borders; classified from the documented rule (first grid containing the point, else first grid having it within half a cell): a hit must be counted, finite and actually shifted (grid values are kept away from zero), beyond all margins NaN and uncounted (or passed with @null); singleton and batch; non-trivial = a margin tuple or a batch mixing counted and uncounted tuples",
        n,
        multi_strategy,
        check_multi,
    );

    // 5. the failure pattern moves with the false origin / central meridian
    let n = run.scale(20_000, 300_000);
    run.section(
        "origin-shift",
        "metamorphic: P(x_0=a, y_0=b) inverse on input + (a, b) and P(x_0=0, y_0=0) inverse on the input must count / NaN-mark the same tuples (tmerc, btmerc, merc, lcc, laea, somerc, omerc; utm/butm against the plain t-merc they are defined by), inputs dense in 0.8..1.2 of the declared limit on both sides, around limit -+ |x_0| and around the limit taken in the raw easting, a in {0, 500000, -3e6, random}; likewise forward P(lon_0=L) on lon + L versus P(lon_0=0); non-trivial = case containing both an accepted and a rejected point",
        n,
        shift_strategy,
        check_shift,
    );

    // 6. the formulas' own singular points (3-D operators)
    {
        let nlat = run.scale(8, 300).max(SING_LATS.len());
        let total = MOLO_PARAMS.len() * 2 * MOLO_WRAPS * 2 * SING_LONS.len() * nlat;
        run.sweep(
            "singular-molodensky",
            "molodensky: 8 parameterisations (ellps_0/ellps_1 pairs, ellps + da/df, context default ellipsoid, translations only) x full / abridged x {plain, `inv`, pipeline step, inverted pipeline step} x both directions x 3 longitudes x latitudes (exact poles, equator, +-0, beyond the poles, then a low-discrepancy sequence); per case a batch of two ordinary tuples and tuples whose height is exactly -M(lat) and -N(lat) (library's public radii of curvature, so that the sum is exactly 0.0) for each of the 5 catalogue ellipsoids, and +-1 ulp for the operator's own; singleton and batch: uncounted => NaN, counted => NaN-free and not bit-identical",
            total,
            sing_molodensky,
            check_sing,
        );
        let nl = SING_LATS.len();
        run.enumerate(
            "singular-cart",
            "cart x 5 ellipsoids: forward at heights -N(lat) (points on the axis of rotation), -M(lat), +-1 ulp, the geographic images of the centre; inverse at the centre of the earth (all signs of zero), on the axis (|Z| from 1e-300 to 1e9, incl. b +- 1 ulp), at tiny distances from the axis (1e-300 .. 1e-6 incl. the operator's cut-off a*1e-16 +- 1 ulp) and in the equatorial plane at radii 1e-300 .. a (incl. a*e^2): same clauses",
            ELL.len() * (nl + 3),
            move |i| sing_cart(i, nl),
            check_sing,
        );
        run.enumerate(
            "singular-geodesic",
            "geodesic x 5 ellipsoids x plain / reversible: inverse on coincident pairs (also 360 degrees apart), exactly antipodal pairs (incl. equatorial, pole to pole), antipodal off by 1e-13 degree; forward with distance +-0, 1e-9, half and full circumferences (pi*a, pi*b, 2*pi*a, 2*pi*b) from the equator, mid latitudes and the poles: uncounted => NaN, counted => NaN-free",
            ELL.len() * 4,
            sing_geodesic,
            check_sing,
        );
    }

    run.finish("invariants on (count, before, after) of Context::apply for every built-in operator in each direction, per tuple (singleton application) and per batch, over generated tuples inside / at the edge of / beyond the declared domain with NaN in all 16 subsets of elements, plus pipelines with failing steps against min over stand-alone step counts");
}
