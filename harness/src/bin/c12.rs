//! C12 — the stack sub-language behaves as the documented abstract stack machine.
//!
//! Oracle: reference interpreter transcribed from ruminations/002 (operator `stack`,
//! `push`, `pop`), first validated against the document's own example tables.
//! Generated: every single instruction (exhaustive), pairs (sampled / exhaustive in
//! the thorough tier), random depth-aware programs interleaved with value-changing
//! steps, both directions, operand sets of 0..n tuples, repeated application.
//!
//! Steps reporting FEWER successes than operands (sections failing-step-sandwich and
//! random-programs-failing-steps): the machine executes every instruction whatever the
//! counts of the earlier steps were, and the pipeline reports the minimum count over the
//! executed steps.  Interleaved are (a) `vstep`, an operator registered by the harness that
//! changes the data in a known way (nothing / shift / shift the first k and NaN the rest /
//! scale) and returns an arbitrary count (0, 1, 2, n-1, n-2, n), modelled exactly, and
//! (b) library operators (cart, utm, tmerc, laea, lcc, merc, helmert, geodesic, and the
//! one-way operators curvature and gravity, which report 0 and leave the data alone in the
//! inverse direction) fed with operand sets that are partly or wholly outside their
//! domain; these are opaque functions to the machine: the reference applies the same
//! operator *standalone* (not in a pipeline) to a container of the same kind holding the
//! machine's current operand state and takes values (bit for bit) and count from there.
//! Soundness limit kept: after an underflow that is not the last executed step only the
//! count (0) is compared (on the unchanged tree the later steps do run: `stack` underflows
//! leave the stack alone, a legacy pop has already popped part of it; the documentation
//! says nothing about either, so values are not asserted).
//!
//! The STRUCTURE of a `stack` step (sections step-structure-subsets and -variants): "ill-formed
//! sub-commands are rejected at instantiation" is enumerated over which sub-command keys of the
//! gamut a step names, not only over the arguments of one sub-command: all 2^7 subsets of
//! push/pop/roll/unroll/flip/swap/drop with well-formed arguments for each member, in four textual
//! orders, on its own and in three positions of a pipeline; well-formed members mixed with one
//! ill-formed member; a key given twice; keys outside the gamut; legacy push/pop steps carrying
//! new-style keys.  Oracle: accepted if and only if exactly one sub-command is named and its
//! arguments are well-formed; an accepted step, run in both directions inside a program, is
//! compared with the reference machine executing that one sub-command (`Ins::Spelled`).

use geodesy::authoring::*;
use proptest::prelude::*;
use serde::{Deserialize, Serialize};
use vcore::geo::*;
use vcore::*;

#[derive(Clone, Debug, Serialize, Deserialize, PartialEq, Eq, Hash)]
enum Ins {
    Push(Vec<u8>),
    Pop(Vec<u8>),
    Flip(Vec<u8>),
    Roll(i8, i8),
    Unroll(i8, i8),
    Swap,
    LPush(u8), // legacy `push v_i ...`, bit i-1 set for v_i
    LPop(u8),
    AddOne(bool),    // addone / addone inv
    Perm([i8; 4]),   // axisswap order=...
    Noop,
    /// `vstep`, registered by the harness: known change of the data, arbitrary reported count
    User { mode: u8, dim: u8, ret: i8, inv: bool },
    /// library operator LIB_STEPS[idx], opaque to the machine (evaluated standalone)
    Lib { idx: u8, inv: bool },
    /// a step written as `text` (any spelling: key order, extra keys, repeated keys) that the
    /// documentation says is the instruction `sem`
    Spelled { text: String, sem: Box<Ins> },
}

/// (definition, invertible). Operand sets partly / wholly outside the domain make these report
/// fewer successes than operands; the one-way ones report 0 in the inverse direction.
const LIB_STEPS: [(&str, bool); 13] = [
    ("cart", true),
    ("cart ellps=intl", true),
    ("utm zone=32", true),
    ("tmerc lat_0=10 lon_0=9 k_0=0.9996 x_0=500000", true),
    ("laea lat_0=52 lon_0=10 x_0=4321000 y_0=3210000", true),
    ("lcc lat_1=33 lat_2=45 lon_0=10", true),
    ("merc lat_ts=56", true),
    ("helmert x=-87 y=-96 z=-120", true),
    ("helmert x=1 dx=0.01 dy=0.02 dz=0.03 t_epoch=2010", true),
    ("geodesic", true),
    ("molodensky dx=-87 dy=-96 dz=-120 ellps_0=intl ellps_1=GRS80", true),
    ("curvature mean", false),
    ("gravity grs80", false),
];

/// The count `vstep ret=r` reports for n operands: r >= 0: min(r, n); r < 0: n - |r| (not below 0)
fn user_count(ret: i64, n: usize) -> usize {
    if ret >= 0 {
        (ret as usize).min(n)
    } else {
        n.saturating_sub(ret.unsigned_abs() as usize)
    }
}

// ---- the user defined step --------------------------------------------------------

#[rustfmt::skip]
const VSTEP_GAMUT: [OpParameter; 4] = [
    OpParameter::Flag    { key: "inv" },
    OpParameter::Natural { key: "mode", default: Some(0) },
    OpParameter::Natural { key: "dim",  default: Some(1) },
    OpParameter::Integer { key: "ret",  default: Some(0) },
];

fn vstep(op: &Op, operands: &mut dyn CoordinateSet, forward: bool) -> usize {
    let n = operands.len();
    let mode = op.params.natural("mode").unwrap_or(0);
    let j = op.params.natural("dim").unwrap_or(1).clamp(1, 4) - 1;
    let k = user_count(op.params.integer("ret").unwrap_or(0), n);
    let s = if forward { 0.5 } else { -0.5 };
    let f = if forward { 2.0 } else { 0.5 };
    for i in 0..n {
        let mut c = operands.get_coord(i);
        match mode {
            0 => continue,
            1 => c[j] += s,
            2 => {
                if i < k {
                    c[j] += s
                } else {
                    c = Coor4D::nan()
                }
            }
            _ => c[j] *= f,
        }
        operands.set_coord(i, &c);
    }
    k
}
fn vstep_fwd(op: &Op, _ctx: &dyn Context, operands: &mut dyn CoordinateSet) -> usize {
    vstep(op, operands, true)
}
fn vstep_inv(op: &Op, _ctx: &dyn Context, operands: &mut dyn CoordinateSet) -> usize {
    vstep(op, operands, false)
}
fn vstep_new(parameters: &RawParameters, ctx: &dyn Context) -> Result<Op, Error> {
    Op::plain(parameters, InnerOp(vstep_fwd), Some(InnerOp(vstep_inv)), &VSTEP_GAMUT, ctx)
}

fn list(v: &[u8]) -> String {
    v.iter().map(|i| i.to_string()).collect::<Vec<_>>().join(",")
}
fn flags(mask: u8, shuffle: bool) -> String {
    let mut v: Vec<String> = (0..4).filter(|i| mask & (1 << i) != 0).map(|i| format!(" v_{}", i + 1)).collect();
    if shuffle {
        v.reverse();
    }
    v.concat()
}

impl Ins {
    fn text(&self) -> String {
        match self {
            Ins::Push(l) => format!("stack push={}", list(l)),
            Ins::Pop(l) => format!("stack pop={}", list(l)),
            Ins::Flip(l) => format!("stack flip={}", list(l)),
            Ins::Roll(m, n) => format!("stack roll={m},{n}"),
            Ins::Unroll(m, n) => format!("stack unroll={m},{n}"),
            Ins::Swap => "stack swap".into(),
            Ins::LPush(m) => format!("push{}", flags(*m, m % 3 == 0)),
            Ins::LPop(m) => format!("pop{}", flags(*m, m % 2 == 0)),
            Ins::AddOne(false) => "addone".into(),
            Ins::AddOne(true) => "addone inv".into(),
            Ins::Perm(p) => format!("axisswap order={},{},{},{}", p[0], p[1], p[2], p[3]),
            Ins::Noop => "noop".into(),
            Ins::User { mode, dim, ret, inv } => format!("vstep mode={mode} dim={dim} ret={ret}{}", if *inv { " inv" } else { "" }),
            Ins::Lib { idx, inv } => {
                let (def, invertible) = LIB_STEPS[*idx as usize % LIB_STEPS.len()];
                format!("{def}{}", if *inv && invertible { " inv" } else { "" })
            }
            Ins::Spelled { text, .. } => text.clone(),
        }
    }
    /// the instruction a spelled step stands for
    fn core(&self) -> &Ins {
        match self {
            Ins::Spelled { sem, .. } => sem.core(),
            other => other,
        }
    }
    /// a stack instruction that, executed in the given direction, writes stack columns into the operands
    fn writes_operands(&self, fwd: bool) -> bool {
        match self.core() {
            Ins::Flip(_) => true,
            Ins::Pop(_) | Ins::LPop(_) => fwd,
            Ins::Push(_) | Ins::LPush(_) => !fwd,
            _ => false,
        }
    }
    /// a step that may report fewer successes than there are operands
    fn may_fail(&self) -> bool {
        matches!(self, Ins::User { .. } | Ins::Lib { .. })
    }
    /// The instruction which, executed in the inverse direction, acts as `self` does forward.
    fn mirrored(&self) -> Ins {
        match self {
            Ins::Push(l) => Ins::Pop(l.iter().rev().cloned().collect()),
            Ins::Pop(l) => Ins::Push(l.iter().rev().cloned().collect()),
            Ins::Roll(m, n) => Ins::Unroll(*m, *n),
            Ins::Unroll(m, n) => Ins::Roll(*m, *n),
            Ins::LPush(m) => Ins::LPop(*m),
            Ins::LPop(m) => Ins::LPush(*m),
            Ins::AddOne(i) => Ins::AddOne(!i),
            Ins::User { mode, dim, ret, inv } => Ins::User { mode: *mode, dim: *dim, ret: *ret, inv: !inv },
            // a one-way operator cannot be mirrored: the inverse direction then runs it in its
            // unsupported direction (0 successes, data left alone), which is part of the domain
            Ins::Lib { idx, inv } => Ins::Lib { idx: *idx, inv: !inv && LIB_STEPS[*idx as usize % LIB_STEPS.len()].1 },
            // the text stays; executed in the inverse direction it acts as the mirrored instruction does forward
            Ins::Spelled { text, sem } => Ins::Spelled { text: text.clone(), sem: Box::new(sem.mirrored()) },
            // axisswap inverse is the inverse permutation: keep the step, and let the
            // model apply the documented inverse mapping
            other => other.clone(),
        }
    }
    fn moves_data(&self) -> bool {
        matches!(self.core(), Ins::Pop(_) | Ins::Flip(_) | Ins::Roll(_, _) | Ins::Unroll(_, _) | Ins::LPop(_) | Ins::Swap)
    }
}

fn program_text(p: &[Ins]) -> String {
    p.iter().map(|i| i.text()).collect::<Vec<_>>().join(" | ")
}

// ---- the reference machine --------------------------------------------------------

#[derive(Debug, Default)]
struct ModelOut {
    values: Vec<[f64; 4]>,
    count: usize,
    underflow: bool,
    underflow_last: bool,
    unspecified: bool,
    /// executed steps that reported 0 successes for a non-empty operand set / fewer than all
    zero_steps: usize,
    partial_steps: usize,
    /// data moving stack instructions executed after a step that reported fewer / zero successes
    moves_after_short: usize,
    moves_after_zero: usize,
    /// one-way operators executed in the direction they do not support
    oneway_unsupported: usize,
    /// the standalone evaluation of a library step failed (message); nothing is compared then
    ext_error: Option<String>,
}

/// Standalone evaluation of an opaque (library) step on the machine's current operand state:
/// (instruction, pipeline direction, operands) -> (operands, successes)
type Ext<'a> = &'a mut dyn FnMut(&Ins, bool, &[[f64; 4]]) -> Result<(Vec<[f64; 4]>, usize), String>;

/// Big swap on the m topmost elements: the n upper elements go below the m-n lower.
fn model_roll(stack: &mut Vec<Vec<f64>>, m: i64, n: i64) -> bool {
    let m = m.unsigned_abs() as usize;
    if m > stack.len() {
        return false;
    }
    let n = if n < 0 { m as i64 + n } else { n } as usize % m.max(1);
    let base = stack.len() - m;
    let sub: Vec<Vec<f64>> = stack.drain(base..).collect();
    // sub = [lower (m-n) ..., upper n ...]; result = [upper n ..., lower (m-n) ...]
    let (lower, upper) = sub.split_at(m - n);
    stack.extend(upper.iter().cloned());
    stack.extend(lower.iter().cloned());
    true
}

/// unroll=m,n: the n lower elements of the sub-stack go above the m-n upper.
fn model_unroll(stack: &mut Vec<Vec<f64>>, m: i64, n: i64) -> bool {
    let mu = m.unsigned_abs() as usize;
    if mu > stack.len() {
        return false;
    }
    let n = if n < 0 { mu as i64 + n } else { n } as usize % mu.max(1);
    let base = stack.len() - mu;
    let sub: Vec<Vec<f64>> = stack.drain(base..).collect();
    let (lower, upper) = sub.split_at(n);
    stack.extend(upper.iter().cloned());
    stack.extend(lower.iter().cloned());
    true
}

fn model_exec(ins: &Ins, fwd: bool, stack: &mut Vec<Vec<f64>>, ops: &mut Vec<[f64; 4]>, out: &mut ModelOut, ext: Ext) -> bool {
    // returns false on underflow
    let len = ops.len();
    // the count a value-changing step reports; stack instructions report all operands
    let mut reported = len;
    let ok = model_exec_inner(ins, fwd, stack, ops, out, ext, &mut reported);
    if !ok || out.ext_error.is_some() {
        return ok;
    }
    if ins.may_fail() {
        if reported < len {
            out.partial_steps += 1;
        }
        if reported == 0 && len > 0 {
            out.zero_steps += 1;
        }
        out.count = out.count.min(reported);
    } else if ins.writes_operands(fwd) && len > 0 {
        if out.partial_steps > 0 {
            out.moves_after_short += 1;
        }
        if out.zero_steps > 0 {
            out.moves_after_zero += 1;
        }
    }
    true
}

fn model_exec_inner(ins: &Ins, fwd: bool, stack: &mut Vec<Vec<f64>>, ops: &mut Vec<[f64; 4]>, out: &mut ModelOut, ext: Ext, reported: &mut usize) -> bool {
    if let Ins::Spelled { sem, .. } = ins {
        return model_exec_inner(sem, fwd, stack, ops, out, ext, reported);
    }
    let len = ops.len();
    let push = |stack: &mut Vec<Vec<f64>>, ops: &Vec<[f64; 4]>, l: &[u8]| {
        for &i in l {
            stack.push(ops.iter().map(|c| c[i as usize - 1]).collect());
        }
    };
    let pop = |stack: &mut Vec<Vec<f64>>, ops: &mut Vec<[f64; 4]>, l: &[u8]| -> bool {
        if stack.len() < l.len() {
            return false;
        }
        for &i in l {
            let col = stack.pop().unwrap();
            for (k, c) in ops.iter_mut().enumerate() {
                c[i as usize - 1] = col[k];
            }
        }
        true
    };
    let rev = |l: &[u8]| -> Vec<u8> { l.iter().rev().cloned().collect() };
    let numeric = |mask: u8| -> Vec<u8> { (1..=4u8).filter(|i| mask & (1 << (i - 1)) != 0).collect() };
    match (ins, fwd) {
        (Ins::Push(l), true) => push(stack, ops, l),
        (Ins::Push(l), false) => return pop(stack, ops, &rev(l)),
        (Ins::Pop(l), true) => return pop(stack, ops, l),
        (Ins::Pop(l), false) => push(stack, ops, &rev(l)),
        (Ins::Flip(l), _) => {
            if stack.len() < l.len() {
                return false;
            }
            let d = stack.len();
            for (j, &i) in l.iter().enumerate() {
                for (k, c) in ops.iter_mut().enumerate() {
                    std::mem::swap(&mut c[i as usize - 1], &mut stack[d - 1 - j][k]);
                }
            }
        }
        (Ins::Roll(m, n), true) | (Ins::Unroll(m, n), false) => return model_roll(stack, *m as i64, *n as i64),
        (Ins::Unroll(m, n), true) | (Ins::Roll(m, n), false) => return model_unroll(stack, *m as i64, *n as i64),
        (Ins::Swap, _) => {
            let d = stack.len();
            if d < 2 {
                out.unspecified = true;
            } else {
                stack.swap(d - 1, d - 2);
            }
        }
        // legacy: push in numerical order, pop in reverse numerical order
        (Ins::LPush(m), true) | (Ins::LPop(m), false) => push(stack, ops, &numeric(*m)),
        (Ins::LPop(m), true) | (Ins::LPush(m), false) => return pop(stack, ops, &rev(&numeric(*m))),
        (Ins::AddOne(inv), d) => {
            let s = if *inv != d { 1.0 } else { -1.0 };
            for c in ops.iter_mut() {
                c[0] += s;
            }
        }
        (Ins::Perm(p), true) => {
            for c in ops.iter_mut() {
                let inp = *c;
                for k in 0..4 {
                    c[k] = inp[p[k].unsigned_abs() as usize - 1] * (p[k].signum() as f64);
                }
            }
        }
        (Ins::Perm(p), false) => {
            for c in ops.iter_mut() {
                let inp = *c;
                for k in 0..4 {
                    c[p[k].unsigned_abs() as usize - 1] = inp[k] * (p[k].signum() as f64);
                }
            }
        }
        (Ins::Noop, _) => {}
        (Ins::User { mode, dim, ret, inv }, d) => {
            let forward = *inv != d;
            let k = user_count(*ret as i64, len);
            let j = (*dim as usize).clamp(1, 4) - 1;
            let s = if forward { 0.5 } else { -0.5 };
            let f = if forward { 2.0 } else { 0.5 };
            for (i, c) in ops.iter_mut().enumerate() {
                match mode {
                    0 => {}
                    1 => c[j] += s,
                    2 => {
                        if i < k {
                            c[j] += s
                        } else {
                            *c = [f64::NAN; 4]
                        }
                    }
                    _ => c[j] *= f,
                }
            }
            *reported = k;
        }
        (Ins::Lib { idx, inv }, d) => {
            let invertible = LIB_STEPS[*idx as usize % LIB_STEPS.len()].1;
            if !invertible && !d {
                out.oneway_unsupported += 1;
            }
            let _ = inv;
            match ext(ins, d, ops) {
                Ok((values, count)) => {
                    *ops = values;
                    *reported = count;
                }
                Err(msg) => {
                    out.ext_error = Some(msg);
                    return true;
                }
            }
        }
        (Ins::Spelled { .. }, _) => unreachable!("handled above"),
    }
    true
}

/// What a container of the given kind reports for a tuple after storing it (the documented
/// container semantics of src/coordinate/set.rs: missing height reads 0, missing epoch NaN,
/// Coor32 stores f32, the (set, h, t) and (set, t) adapters report their fixed values).
const FIXED_H: f64 = -7.5;
const FIXED_T: f64 = 2001.25;
const KINDS: usize = 6;
fn kind_name(kind: u8) -> &'static str {
    ["Vec<Coor4D>", "Vec<Coor3D>", "Vec<Coor2D>", "Vec<Coor32>", "(Vec<Coor2D>, h, t)", "(Vec<Coor3D>, t)"][kind as usize % KINDS]
}
fn project(kind: u8, c: [f64; 4]) -> [f64; 4] {
    match kind as usize % KINDS {
        0 => c,
        1 => [c[0], c[1], c[2], f64::NAN],
        2 => [c[0], c[1], 0.0, f64::NAN],
        3 => [c[0] as f32 as f64, c[1] as f32 as f64, 0.0, f64::NAN],
        4 => [c[0], c[1], FIXED_H, FIXED_T],
        _ => [c[0], c[1], c[2], FIXED_T],
    }
}

fn model(prog: &[Ins], fwd: bool, operands: &[[f64; 4]]) -> ModelOut {
    model_in(prog, fwd, operands, 0, &mut |_, _, _| Err("no library available".to_string()))
}

/// The machine acting on an operand set held in a container of the given kind: every step
/// reads tuples through the container and writes them back through it.
fn model_in(prog: &[Ins], fwd: bool, operands: &[[f64; 4]], kind: u8, ext: Ext) -> ModelOut {
    let mut out = ModelOut { count: operands.len(), ..Default::default() };
    let mut ops: Vec<[f64; 4]> = operands.iter().map(|c| project(kind, *c)).collect();
    let mut stack: Vec<Vec<f64>> = vec![]; // fresh per application
    let order: Vec<&Ins> = if fwd { prog.iter().collect() } else { prog.iter().rev().collect() };
    let n = order.len();
    for (k, ins) in order.into_iter().enumerate() {
        let ok = model_exec(ins, fwd, &mut stack, &mut ops, &mut out, &mut *ext);
        if out.ext_error.is_some() {
            break;
        }
        if !ok {
            out.underflow = true;
            out.underflow_last = k + 1 == n;
            out.count = 0;
            if !out.underflow_last {
                // what later steps do to NaN-marked data is not specified: stop modelling values
                break;
            }
            for c in ops.iter_mut() {
                *c = [f64::NAN; 4];
            }
        }
        for c in ops.iter_mut() {
            *c = project(kind, *c);
        }
    }
    out.values = ops;
    out
}

fn selftest_model() {
    // Tables from ruminations/002 (operator stack)
    let col = |v: f64| vec![v];
    let mk = |v: &[f64]| v.iter().map(|x| col(*x)).collect::<Vec<_>>();
    let flat = |s: &Vec<Vec<f64>>| s.iter().map(|c| c[0]).collect::<Vec<_>>();
    let cases: [(&[f64], (bool, i64, i64), &[f64]); 9] = [
        (&[1., 2., 3., 4.], (true, 3, -2), &[1., 4., 2., 3.]),
        (&[1., 2., 3., 4.], (true, 3, 1), &[1., 4., 2., 3.]),
        (&[1., 2., 3., 4.], (true, 3, 2), &[1., 3., 4., 2.]),
        (&[1., 3., 4., 2.], (true, 3, 1), &[1., 2., 3., 4.]),
        (&[1., 2., 3., 4.], (false, 3, 2), &[1., 4., 2., 3.]),
        (&[1., 2., 3., 4.], (false, 3, -2), &[1., 3., 4., 2.]),
        (&[1., 3., 4., 2.], (false, 3, 2), &[1., 2., 3., 4.]),
        (&[1., 2., 3., 4.], (true, 3, 2), &[1., 3., 4., 2.]),
        (&[1., 3., 4., 2.], (false, 3, 2), &[1., 2., 3., 4.]),
    ];
    for (before, (roll, m, n), after) in cases {
        let mut s = mk(before);
        let ok = if roll { model_roll(&mut s, m, n) } else { model_unroll(&mut s, m, n) };
        assert!(ok && flat(&s) == after, "model disagrees with Rumination 002 table: {before:?} {roll} {m},{n} -> {:?} (doc: {after:?})", flat(&s));
    }
    // flip table
    let mut out = ModelOut::default();
    let mut stack = mk(&[1., 2., 3., 4.]);
    let mut ops = vec![[5., 6., 7., 8.]];
    model_exec(&Ins::Flip(vec![1, 2]), true, &mut stack, &mut ops, &mut out, &mut |_, _, _| Err(String::new()));
    assert!(flat(&stack) == [1., 2., 6., 5.] && ops[0] == [4., 3., 7., 8.], "flip model disagrees with doc");
    // push=1,2 | pop=1,2 swaps the first two elements
    let m = model(&[Ins::Push(vec![1, 2]), Ins::Pop(vec![1, 2])], true, &[[1., 2., 3., 4.]]);
    assert!(m.values[0] == [2., 1., 3., 4.]);
    // legacy dance push v_3 v_2 | pop v_3 v_2 is a noop
    let m = model(&[Ins::LPush(0b110), Ins::LPop(0b110)], true, &[[1., 2., 3., 4.]]);
    assert!(m.values[0] == [1., 2., 3., 4.]);
    // NB: the two "Swapping two 2D coordinates packed in a 4D" examples at the end of the
    // document's stack section are identities under the document's own push/pop rules
    // (push=1,2,3,4 | pop=4,3,2,1 restores every element); they are not used as reference.
    let m = model(&[Ins::Push(vec![1, 2, 3, 4]), Ins::Pop(vec![4, 3, 2, 1])], true, &[[1., 2., 3., 4.]]);
    assert!(m.values[0] == [1., 2., 3., 4.]);
}

// ---- the case ---------------------------------------------------------------------

#[derive(Clone, Debug, Serialize, Deserialize)]
struct Case {
    prog: Vec<Ins>,
    fwd: bool,
    n_operands: usize,
    offset: i32,
    /// container kind (see `project`); absent in older replay files = Vec<Coor4D>
    #[serde(default)]
    kind: u8,
    /// operand flavour (see `operands`); absent in older replay files = the arithmetic tuples
    #[serde(default)]
    opset: u8,
}

/// Apply through a container of the case's kind, read the result back through get_coord
fn apply_in(ctx: &Minimal, op: OpHandle, dir: Direction, kind: u8, ops: &[[f64; 4]]) -> Result<Result<(Vec<Coor4D>, usize), geodesy::Error>, vcore::guard::PanicInfo> {
    fn run<S: CoordinateSet>(ctx: &Minimal, op: OpHandle, dir: Direction, mut set: S) -> Result<Result<(Vec<Coor4D>, usize), geodesy::Error>, vcore::guard::PanicInfo> {
        let r = try_apply(ctx, op, dir, &mut set)?;
        Ok(r.map(|count| ((0..set.len()).map(|i| set.get_coord(i)).collect(), count)))
    }
    match kind as usize % KINDS {
        0 => run(ctx, op, dir, ops.iter().map(|c| Coor4D(*c)).collect::<Vec<_>>()),
        1 => run(ctx, op, dir, ops.iter().map(|c| Coor3D([c[0], c[1], c[2]])).collect::<Vec<_>>()),
        2 => run(ctx, op, dir, ops.iter().map(|c| Coor2D([c[0], c[1]])).collect::<Vec<_>>()),
        3 => run(ctx, op, dir, ops.iter().map(|c| Coor32([c[0] as f32, c[1] as f32])).collect::<Vec<_>>()),
        4 => run(ctx, op, dir, (ops.iter().map(|c| Coor2D([c[0], c[1]])).collect::<Vec<_>>(), FIXED_H, FIXED_T)),
        _ => run(ctx, op, dir, (ops.iter().map(|c| Coor3D([c[0], c[1], c[2]])).collect::<Vec<_>>(), FIXED_T)),
    }
}

/// Operand flavours. 0: arithmetic tuples (all distinct small integers). 1..6: tuples chosen per
/// index from a list of kinds, so that the library steps of LIB_STEPS succeed for all, some or
/// none of them: 1 geographic in-domain, 2 geographic out-of-domain (far from every central
/// meridian / at a pole / NaN latitude / infinite longitude), 3 mix of 1 and 2, 4 projected and
/// geocentric metres in-domain, 5 far out metres and NaN, 6 everything mixed.
const OPSETS: usize = 7;
fn operands(n: usize, offset: i32, opset: u8) -> Vec<[f64; 4]> {
    let flavours: &[u8] = match opset as usize % OPSETS {
        0 => &[],
        1 => &[0],
        2 => &[1, 2, 3, 7],
        3 => &[0, 1, 0, 2, 3, 0],
        4 => &[4, 6],
        5 => &[5, 3],
        _ => &[0, 1, 2, 3, 4, 5, 6, 7],
    };
    (0..n)
        .map(|i| {
            let b = (offset as f64) + 100.0 * i as f64;
            if flavours.is_empty() {
                return [b + 11.0, b + 22.0, b + 33.0, b + 44.0];
            }
            let o = offset.rem_euclid(100) as usize;
            let fi = i as f64;
            let h = 100.0 + fi;
            let t = 2000.0 + ((i + o) % 20) as f64;
            match flavours[(i + o) % flavours.len()] {
                0 => [(2.0 + ((7 * i + o) % 16) as f64).to_radians(), (35.0 + ((11 * i + 3 * o) % 30) as f64).to_radians(), h, t],
                1 => [(171.0 + (i % 8) as f64).to_radians(), (((5 * i + o) % 60) as f64 - 30.0).to_radians(), h, t],
                2 => [(10.0 + fi).to_radians(), if (i + o) % 2 == 0 { std::f64::consts::FRAC_PI_2 } else { -std::f64::consts::FRAC_PI_2 }, h, t],
                3 => [(9.0 + fi).to_radians(), f64::NAN, h, t],
                4 => [500_000.0 + 1000.0 * fi + b, 6_100_000.0 - 500.0 * fi, h, t],
                5 => [1.0e8 + b, 2.0e7 + fi, h, t],
                6 => [3_586_525.0 + 10.0 * fi, 762_339.0 + b, 5_201_465.0 - fi, t],
                _ => [f64::INFINITY, (40.0 + fi).to_radians(), h, t],
            }
        })
        .collect()
}

fn check(case: &Case, rec: &mut Rec) -> CaseResult {
    let text = program_text(&case.prog);
    let ops = operands(case.n_operands, case.offset, case.opset);
    let kind = kind_name(case.kind);
    let mut ctx = Minimal::new();
    ctx.register_op("vstep", OpConstructor(vstep_new));
    let op = match try_op(&mut ctx, &text) {
        Err(p) => vfail!(format!("panic-instantiate@{}", p.sig()), "instantiating '{text}' panics: {} at {}:{}", p.msg, p.file, p.line),
        Ok(Err(e)) => vfail!("well-formed-rejected", "well-formed stack program '{text}' rejected: {e:?}"),
        Ok(Ok(op)) => op,
    };
    // the library steps of the program, each instantiated on its own: the reference machine
    // applies them standalone (outside any pipeline) to its current operand state
    let mut handles: std::collections::BTreeMap<String, OpHandle> = Default::default();
    for ins in case.prog.iter().filter(|i| matches!(i, Ins::Lib { .. })) {
        let t = ins.text();
        if !handles.contains_key(&t) {
            match try_op(&mut ctx, &t) {
                Ok(Ok(h)) => {
                    handles.insert(t, h);
                }
                Ok(Err(e)) => vfail!("lib-step-standalone-rejected", "step '{t}' of '{text}' is accepted in the pipeline but rejected on its own: {e:?}"),
                Err(p) => vfail!(format!("panic-instantiate@{}", p.sig()), "instantiating '{t}' panics: {} at {}:{}", p.msg, p.file, p.line),
            }
        }
    }
    let m = {
        let ctx = &ctx;
        let kindv = case.kind;
        let mut ext = |ins: &Ins, d: bool, cur: &[[f64; 4]]| -> Result<(Vec<[f64; 4]>, usize), String> {
            let t = ins.text();
            let h = handles.get(&t).ok_or_else(|| format!("no handle for '{t}'"))?;
            match apply_in(ctx, *h, dir_of(d), kindv, cur) {
                Err(p) => Err(format!("'{t}' ({:?}) applied on its own to {cur:?} panics: {} at {}:{}", dir_of(d), p.msg, p.file, p.line)),
                Ok(Err(e)) => Err(format!("'{t}' ({:?}) applied on its own returns an error: {e:?}", dir_of(d))),
                Ok(Ok((data, count))) => Ok((data.iter().map(|c| c.0).collect(), count)),
            }
        };
        model_in(&case.prog, case.fwd, &ops, case.kind, &mut ext)
    };
    if let Some(msg) = &m.ext_error {
        vfail!("lib-step-standalone-failed", "reference for '{text}' on a {kind} not available: {msg}");
    }
    let dir = dir_of(case.fwd);
    let mut first: Option<(Vec<Coor4D>, usize)> = None;
    // apply the same handle three times to fresh copies: the stack must not leak
    for round in 0..3 {
        let (data, count) = match apply_in(&ctx, op, if case.fwd { Fwd } else { Inv }, case.kind, &ops) {
            Err(p) => vfail!(format!("panic-apply@{}", p.sig()), "applying '{text}' ({dir:?}) to a {kind} panics: {} at {}:{}", p.msg, p.file, p.line),
            Ok(Err(e)) => vfail!("apply-error", "apply of '{text}' to a {kind} returned an error: {e:?}"),
            Ok(Ok(c)) => c,
        };
        if m.unspecified {
            rec.count("excluded_unspecified_swap", 1);
            rec.class("unspecified-swap");
            return Ok(());
        }
        if let Some((d0, c0)) = &first {
            vensure!(vec_bits_eq(d0, &data) && *c0 == count, "stack-leaks-between-applications",
                "'{text}' ({dir:?}) application #{round} differs from the first one on identical input: count {count} vs {c0}, first diff at {:?}", first_bits_diff(d0, &data));
        }
        if m.underflow {
            vensure!(count == 0, "underflow-count", "'{text}' ({dir:?}) underflows the stack but reports {count} successes (expected 0)");
            if m.underflow_last {
                // dimensions the container stores (the others read as constants, NaN for a missing epoch)
                let stored: &[usize] = match case.kind as usize % KINDS { 0 => &[0, 1, 2, 3], 1 | 5 => &[0, 1, 2], _ => &[0, 1] };
                let last = if case.fwd { case.prog.last() } else { case.prog.first() };
                let legacy = matches!((last.map(|i| i.core()), case.fwd), (Some(Ins::LPop(_)), true) | (Some(Ins::LPush(_)), false));
                for (i, c) in data.iter().enumerate() {
                    if legacy {
                        // the legacy pop marks single elements (pinned by the repository's own test)
                        vensure!(stored.iter().any(|k| c[*k].is_nan()), "underflow-not-nan",
                            "'{text}' ({dir:?}) on a {kind} underflows in its last step but tuple {i} carries no NaN in any dimension the container stores: {}", fmt_c4(c));
                    } else {
                        vensure!(stored.iter().all(|k| c[*k].is_nan()), "underflow-not-all-nan",
                            "'{text}' ({dir:?}) on a {kind} underflows in its last step but tuple {i} is not NaN in every dimension the container stores: {}", fmt_c4(c));
                    }
                }
            }
        } else {
            vensure!(count == m.count, "count", "'{text}' ({dir:?}) on {} tuples in a {kind} reports {count} successes; the minimum over the counts of the executed steps is {}", case.n_operands, m.count);
            for (i, c) in data.iter().enumerate() {
                vensure!(c4_bits_eq(c, &Coor4D(m.values[i])), "machine-mismatch",
                    "'{text}' ({dir:?}) on a {kind}, tuple {i}: library {} vs documented machine {:?} (input {:?}, read through the container before and after every step)", fmt_c4(c), m.values[i], ops[i]);
            }
        }
        if first.is_none() {
            first = Some((data, count));
        }
    }
    rec.class(if m.underflow { "underflow" } else if case.fwd { "ok-fwd" } else { "ok-inv" });
    rec.class(&format!("container:{kind}"));
    let has_failing = case.prog.iter().any(|i| i.may_fail());
    if has_failing {
        // the class of steps reporting fewer successes than operands
        rec.class(if m.zero_steps > 0 { "short-step:zero" } else if m.partial_steps > 0 { "short-step:some" } else { "short-step:none(all succeed)" });
        rec.class(&format!("operand-flavour:{}", case.opset as usize % OPSETS));
        rec.count("steps_reporting_zero", m.zero_steps as u64);
        rec.count("steps_reporting_fewer", m.partial_steps as u64);
        rec.count("stack_writes_after_zero_step", m.moves_after_zero as u64);
        rec.count("stack_writes_after_short_step", m.moves_after_short as u64);
        rec.count("oneway_unsupported_direction", m.oneway_unsupported as u64);
        if !m.underflow {
            if m.moves_after_zero > 0 {
                rec.class("values-compared-after-zero-step");
            }
            rec.class(if m.count == 0 { "count:0" } else if m.count < case.n_operands { "count:some" } else { "count:all" });
        }
        for i in case.prog.iter() {
            match i {
                Ins::User { mode, .. } => rec.class(&format!("step:vstep mode={mode}")),
                Ins::Lib { idx, .. } => rec.class(&format!("step:{}", LIB_STEPS[*idx as usize % LIB_STEPS.len()].0.split(' ').next().unwrap())),
                _ => {}
            }
        }
        // non-trivial: a stack instruction wrote into the operands after a step had reported
        // fewer successes than operands, and the values were compared
        if m.moves_after_short > 0 && !m.underflow {
            rec.nontrivial(&(text, case.fwd, case.kind, case.opset));
        }
    } else if case.prog.iter().any(|i| i.moves_data()) && case.n_operands > 0 {
        rec.nontrivial(&(text, case.fwd, case.kind));
    }
    Ok(())
}

// ---- enumerations -----------------------------------------------------------------

fn all_lists() -> Vec<Vec<u8>> {
    let mut out = vec![];
    for len in 1..=4usize {
        let total = 4usize.pow(len as u32);
        for k in 0..total {
            let mut v = vec![];
            let mut x = k;
            for _ in 0..len {
                v.push((x % 4) as u8 + 1);
                x /= 4;
            }
            out.push(v);
        }
    }
    out
}

fn all_instructions() -> Vec<Ins> {
    let mut v = vec![];
    for l in all_lists() {
        v.push(Ins::Push(l.clone()));
        v.push(Ins::Pop(l.clone()));
        v.push(Ins::Flip(l));
    }
    for m in 1..=8i8 {
        for n in (-(m - 1))..=(m - 1) {
            v.push(Ins::Roll(m, n));
            v.push(Ins::Unroll(m, n));
        }
    }
    v.push(Ins::Swap);
    for mask in 0..16u8 {
        v.push(Ins::LPush(mask));
        v.push(Ins::LPop(mask));
    }
    v
}

/// Preludes (executed before the instruction under test) giving depth 0, 2, 4, 8
fn prelude(k: usize) -> Vec<Ins> {
    match k {
        0 => vec![Ins::Noop],
        1 => vec![Ins::Push(vec![2, 4])],
        2 => vec![Ins::Push(vec![1, 2, 3, 4])],
        _ => vec![Ins::Push(vec![1, 2, 3, 4]), Ins::AddOne(false), Ins::Perm([2, 1, 4, 3]), Ins::Push(vec![4, 3, 2, 1])],
    }
}

/// Build the program text order such that executing in direction `fwd` runs `exec` in order.
fn arrange(exec: &[Ins], fwd: bool) -> Vec<Ins> {
    if fwd {
        exec.to_vec()
    } else {
        exec.iter().rev().map(|i| i.mirrored()).collect()
    }
}

// ---- random programs --------------------------------------------------------------

#[derive(Clone, Debug)]
struct RawIns {
    kind: u8,
    a: u16,
    b: u16,
    l: Vec<u8>,
    free: bool,
}

fn raw_ins() -> impl Strategy<Value = RawIns> {
    raw_ins_upto(14)
}

/// kinds 14..20 are the steps that may report fewer successes than operands
fn raw_ins_upto(kinds: u8) -> impl Strategy<Value = RawIns> {
    (0u8..kinds, any::<u16>(), any::<u16>(), prop::collection::vec(1u8..=4, 1..=4), prop::bool::weighted(0.04))
        .prop_map(|(kind, a, b, l, free)| RawIns { kind, a, b, l, free })
}

/// counts a `vstep` reports: 0, 1, 2, n-1, n-2, all
const RETS: [i8; 6] = [0, 1, -1, 2, -2, 100];

const PERMS: [[i8; 4]; 6] = [[2, 1, 3, 4], [1, 2, 4, 3], [4, 3, 2, 1], [-1, 2, 3, 4], [3, -1, 2, 4], [2, 3, 4, 1]];

/// Interpret raw draws into an execution sequence that respects the current depth
/// (unless `free`, which allows underflow).
fn interpret(raw: &[RawIns]) -> Vec<Ins> {
    let mut depth = 0usize;
    let mut out = vec![];
    for r in raw {
        let mut l = r.l.clone();
        let ins = match r.kind {
            0 | 1 | 2 => {
                depth += l.len();
                Ins::Push(l)
            }
            3 | 4 => {
                if !r.free {
                    l.truncate(depth);
                }
                if l.is_empty() {
                    depth += 1;
                    Ins::Push(vec![1 + (r.a % 4) as u8])
                } else {
                    depth = depth.saturating_sub(l.len());
                    Ins::Pop(l)
                }
            }
            5 => {
                if !r.free {
                    l.truncate(depth);
                }
                if l.is_empty() {
                    Ins::AddOne(r.a % 2 == 0)
                } else {
                    Ins::Flip(l)
                }
            }
            6 | 7 => {
                let maxm = if r.free { 8 } else { depth.min(8) };
                if maxm == 0 {
                    Ins::Noop
                } else {
                    let m = 1 + pick(r.a, maxm) as i8;
                    let span = 2 * m as usize - 1;
                    let n = pick(r.b, span) as i8 - (m - 1);
                    if r.kind == 6 {
                        Ins::Roll(m, n)
                    } else {
                        Ins::Unroll(m, n)
                    }
                }
            }
            8 => {
                if depth >= 2 || r.free {
                    Ins::Swap
                } else {
                    Ins::Noop
                }
            }
            9 => {
                let mask = (r.a % 16) as u8;
                depth += mask.count_ones() as usize;
                Ins::LPush(mask)
            }
            10 => {
                let mut mask = (r.a % 16) as u8;
                if !r.free {
                    while mask.count_ones() as usize > depth {
                        mask &= mask - 1;
                    }
                }
                depth = depth.saturating_sub(mask.count_ones() as usize);
                Ins::LPop(mask)
            }
            11 => Ins::AddOne(r.a % 2 == 0),
            12 => Ins::Perm(PERMS[pick(r.a, PERMS.len())]),
            14..=16 => Ins::User { mode: pick(r.a, 4) as u8, dim: l[0], ret: RETS[pick(r.b, RETS.len())], inv: l.len() % 2 == 0 },
            17..=19 => Ins::Lib { idx: pick(r.a, LIB_STEPS.len()) as u8, inv: r.b % 2 == 1 },
            _ => Ins::AddOne(false),
        };
        out.push(ins);
    }
    out
}

fn random_case(maxlen: usize) -> impl Strategy<Value = Case> {
    (prop::collection::vec(raw_ins(), 2..=maxlen), any::<bool>(), prop_oneof![4 => 0usize..6, 1 => 6usize..120], -50i32..50, 0u8..KINDS as u8).prop_map(
        |(raw, fwd, n_operands, offset, kind)| Case { prog: arrange(&interpret(&raw), fwd), fwd, n_operands, offset, kind, opset: 0 },
    )
}

/// Random programs in which about a third of the steps may report fewer successes than operands
fn random_failing_case(maxlen: usize) -> impl Strategy<Value = Case> {
    (prop::collection::vec(raw_ins_upto(20), 3..=maxlen), any::<bool>(), prop_oneof![4 => 1usize..7, 1 => 7usize..60], -50i32..50, 0u8..KINDS as u8, 0u8..OPSETS as u8).prop_map(
        |(raw, fwd, n_operands, offset, kind, opset)| Case { prog: arrange(&interpret(&raw), fwd), fwd, n_operands, offset, kind, opset },
    )
}

// ---- stack programs around a step that reports fewer successes than operands ---------

/// every `vstep` variant and every library step (both orientations where invertible)
fn failing_steps() -> Vec<Ins> {
    let mut v = vec![];
    for mode in 0..4u8 {
        for ret in [0i8, 1, -1, 100] {
            for dim in [1u8, 3] {
                for inv in [false, true] {
                    v.push(Ins::User { mode, dim, ret, inv });
                }
            }
        }
    }
    for (idx, (_, invertible)) in LIB_STEPS.iter().enumerate() {
        v.push(Ins::Lib { idx: idx as u8, inv: false });
        if *invertible {
            v.push(Ins::Lib { idx: idx as u8, inv: true });
        }
    }
    v
}

const SANDWICHES: usize = 12;
/// Execution order; `s` is the step under test
fn sandwich(k: usize, s: &Ins) -> Vec<Ins> {
    let s = || s.clone();
    match k % SANDWICHES {
        // save, step, restore
        0 => vec![Ins::Push(vec![1, 2, 3]), s(), Ins::Pop(vec![3, 2, 1])],
        1 => vec![Ins::LPush(0b0111), s(), Ins::LPop(0b0111)],
        2 => vec![Ins::Push(vec![1, 2, 3, 4]), s(), Ins::Flip(vec![3]), Ins::Pop(vec![4, 1])],
        3 => vec![Ins::Push(vec![1, 2]), Ins::Push(vec![3, 4]), s(), Ins::Roll(4, 1), Ins::Pop(vec![1, 2, 3, 4])],
        4 => vec![Ins::Push(vec![4, 3, 2, 1]), s(), Ins::Unroll(3, -1), Ins::Swap, Ins::Pop(vec![2, 2, 1])],
        // the step twice, and a value-changing step that succeeds in between
        5 => vec![Ins::Push(vec![1]), s(), Ins::Flip(vec![1]), Ins::AddOne(false), s(), Ins::Pop(vec![2])],
        // the step first / last
        6 => vec![s(), Ins::Push(vec![1, 2]), Ins::Pop(vec![1, 2])],
        7 => vec![Ins::LPush(0b1111), Ins::Swap, Ins::LPop(0b1010), Ins::Pop(vec![1, 3]), s()],
        // underflow in the last step / in mid-program, after the step
        8 => vec![Ins::Push(vec![2, 1]), s(), Ins::Pop(vec![1, 2, 3])],
        9 => vec![Ins::Push(vec![1, 2]), s(), Ins::Pop(vec![1, 2, 3]), Ins::Pop(vec![1, 2])],
        // the restoring instruction is not the next one
        10 => vec![Ins::LPush(0b1001), s(), Ins::Perm([2, 1, 4, 3]), Ins::Noop, Ins::Push(vec![2]), Ins::Unroll(3, 1), Ins::LPop(0b0110), Ins::Pop(vec![4])],
        _ => vec![Ins::Push(vec![3, 3, 1]), Ins::AddOne(true), s(), Ins::Roll(3, -1), Ins::Flip(vec![2, 2]), Ins::Pop(vec![1, 4, 2])],
    }
}

// ---- rejection of ill-formed sub-commands -----------------------------------------

fn ill_formed() -> Vec<String> {
    let mut v: Vec<String> = vec![];
    for sub in ["push", "pop", "flip"] {
        for bad in ["0", "5", "-1", "1.5", "1,0", "1,2,5", "4,4,4,9", "1,-2", "2.5,1", "a", "1,b", "1e1", "17"] {
            v.push(format!("stack {sub}={bad}"));
        }
    }
    for sub in ["roll", "unroll"] {
        for bad in ["3", "3,3", "3,-3", "3,4", "2,-5", "0,0", "1,1", "3,1,1", "2.5,1", "3,1.5", "a,b", "3,x", "-3,1"] {
            v.push(format!("stack {sub}={bad}"));
        }
    }
    // two sub-commands in one step, or none
    for two in [
        "stack push=1 pop=1", "stack push=1,2 swap", "stack roll=3,1 unroll=3,1", "stack pop=1 flip=1", "stack swap flip=2",
        "stack push=2,2,1,1 pop=1,1,2", "stack roll=2,1 push=1", "stack",
    ] {
        v.push(two.to_string());
    }
    v
}

#[derive(Clone, Debug, Serialize, Deserialize)]
struct RejectCase {
    step: String,
    position: u8, // 0: alone in "noop | X", 1: first, 2: in the middle
}

fn check_reject(c: &RejectCase, rec: &mut Rec) -> CaseResult {
    let text = match c.position {
        0 => format!("noop | {}", c.step),
        1 => format!("{} | noop", c.step),
        _ => format!("stack push=1,2,3,4 | {} | stack pop=1", c.step),
    };
    let mut ctx = Minimal::new();
    match try_op(&mut ctx, &text) {
        Err(p) => vfail!(format!("panic-instantiate@{}", p.sig()), "instantiating ill-formed '{text}' panics: {} at {}:{}", p.msg, p.file, p.line),
        Ok(Ok(_)) => vfail!("ill-formed-accepted", "ill-formed stack sub-command accepted at instantiation: '{text}'"),
        Ok(Err(_)) => {}
    }
    rec.class("rejected");
    rec.nontrivial(&text);
    Ok(())
}

// ---- the structure of a `stack` step ------------------------------------------------
//
// "Ill-formed sub-commands are rejected at instantiation" over the STRUCTURE of a step: which
// of the sub-command keys of the gamut a step names, in which textual order, with which other
// keys.  The documentation (Rumination 002, operator `stack`) describes a step as ONE of
// push/pop/roll/unroll/swap/flip; the constructor's own message says "must specify exactly one
// of push/pop/roll/swap/unroll/drop".  Oracle: a step is accepted if and only if it names
// exactly one sub-command and that one's arguments are well-formed; an accepted step behaves
// as that one sub-command (reference machine).  Keys outside the gamut are ignored
// (src/op/parameter.rs: "Any other parameters given should be ignored").

/// The sub-command keys, in the order of STACK_GAMUT (src/inner_op/stack.rs).  `drop` is in the
/// gamut and in the constructor's message but not in the documentation: a step naming `drop`
/// together with another sub-command must be rejected, `stack drop` alone is not asserted.
const SUBKEYS: [&str; 7] = ["push", "pop", "roll", "unroll", "flip", "swap", "drop"];
const SERIES_KEYS: usize = 5;
/// three well-formed spellings per sub-command, all executable on a stack of depth >= 4
const MEMBERS: [[&str; 3]; 7] = [
    ["push=3", "push=1,2", "push=2,2,1,1"],
    ["pop=1", "pop=1,2", "pop=1,1,2"],
    ["roll=3,1", "roll=2,-1", "roll=4,2"],
    ["unroll=3,1", "unroll=3,-2", "unroll=4,3"],
    ["flip=1", "flip=2,1", "flip=4,4"],
    // a flag given bare and given as key=true is the same thing to the tokenizer
    ["swap", "swap", "swap=true"],
    ["drop", "drop", "drop=true"],
];
/// ill-formed arguments ("" = the key given bare, i.e. without any list)
const BAD_LIST: [&str; 7] = ["0", "5", "1.5", "1,b", "-1", "2,9", ""];
const BAD_ROLL: [&str; 7] = ["3", "3,3", "3,-3", "2.5,1", "a,b", "3,1,1", ""];
/// keys outside the gamut of `stack` (among them the legacy flags and near misses of the sub-command names)
const EXTRAS: [&str; 8] = ["foo", "foo=bar", "v_1", "v_2 v_4", "x=3", "pops=1", "swapped", "rolls=3,1 dropped"];

fn bad_member(key: usize, j: usize) -> String {
    let v = if key == 2 || key == 3 { BAD_ROLL[j % 7] } else { BAD_LIST[j % 7] };
    if v.is_empty() {
        SUBKEYS[key].to_string()
    } else {
        format!("{}={v}", SUBKEYS[key])
    }
}

/// The instruction a well-formed member stands for (None: `drop`, undocumented)
fn sem_of(member: &str) -> Option<Ins> {
    let (key, val) = member.split_once('=').unwrap_or((member, ""));
    let nums: Vec<i8> = val.split(',').filter_map(|x| x.parse().ok()).collect();
    let list: Vec<u8> = nums.iter().map(|x| *x as u8).collect();
    match key {
        "push" => Some(Ins::Push(list)),
        "pop" => Some(Ins::Pop(list)),
        "flip" => Some(Ins::Flip(list)),
        "roll" => Some(Ins::Roll(nums[0], nums[1])),
        "unroll" => Some(Ins::Unroll(nums[0], nums[1])),
        "swap" => Some(Ins::Swap),
        _ => None,
    }
}

/// four textual orders of the members of a step
fn reorder(mut v: Vec<String>, o: usize) -> Vec<String> {
    let n = v.len();
    match o % 4 {
        0 => v,
        1 => {
            v.reverse();
            v
        }
        2 => {
            if n > 1 {
                v.rotate_left(n.div_ceil(2) % n);
            }
            v
        }
        _ => {
            // even positions first, then the odd ones backwards
            let mut out: Vec<String> = v.iter().step_by(2).cloned().collect();
            out.extend(v.iter().skip(1).step_by(2).rev().cloned());
            out
        }
    }
}

#[derive(Clone, Debug, Serialize, Deserialize)]
enum Expect {
    /// must give Err at instantiation
    Reject,
    /// must be accepted and behave as the instruction
    Is(Ins),
    /// acceptance not asserted (undocumented); if accepted it must behave as one of these
    IfAcceptedOneOf(Vec<Ins>),
    /// nothing asserted beyond "does not panic"
    Unasserted,
}

#[derive(Clone, Debug, Serialize, Deserialize)]
struct StepCase {
    family: String,
    /// the step under test, complete with operator name
    step: String,
    /// number of distinct sub-command keys the step names
    named: u8,
    expect: Expect,
    /// 0: on its own (no pipeline), 1: "noop | X", 2: "X | noop", 3: in the middle of a stack program
    position: u8,
    kind: u8,
    post: u8,
}

/// a step accepted as `sem`: executed after a depth-10 prelude, in direction `fwd`, followed by
/// nothing (the operands show what it wrote) / by pops of the 4 / 5 topmost stack elements
fn behaviour_case(step: &str, sem: &Ins, fwd: bool, post: u8, kind: u8) -> Case {
    let exec_sem = if fwd { sem.clone() } else { sem.mirrored() };
    let mut exec = prelude(3);
    exec.push(Ins::Push(vec![3, 1]));
    exec.push(Ins::AddOne(false));
    exec.push(Ins::Spelled { text: step.to_string(), sem: Box::new(exec_sem) });
    match post % 3 {
        0 => {}
        1 => exec.push(Ins::Pop(vec![1, 2, 3, 4])),
        _ => {
            exec.push(Ins::Pop(vec![2]));
            exec.push(Ins::Pop(vec![1, 2, 3, 4]));
        }
    }
    Case { prog: arrange(&exec, fwd), fwd, n_operands: 2, offset: 5, kind, opset: 0 }
}

fn check_step(c: &StepCase, rec: &mut Rec) -> CaseResult {
    let text = match c.position % 4 {
        0 => c.step.clone(),
        1 => format!("noop | {}", c.step),
        2 => format!("{} | noop", c.step),
        _ => format!("stack push=1,2,3,4 | {} | stack pop=1", c.step),
    };
    let mut ctx = Minimal::new();
    let verdict = match try_op(&mut ctx, &text) {
        Err(p) => vfail!(format!("panic-instantiate@{}", p.sig()), "instantiating '{text}' panics: {} at {}:{}", p.msg, p.file, p.line),
        Ok(Ok(_)) => Ok(()),
        Ok(Err(e)) => Err(e),
    };
    let outcome = match (&c.expect, &verdict) {
        (Expect::Reject, Ok(())) => {
            let key = match c.named {
                0 => "no-subcommand-accepted",
                1 => "ill-formed-accepted",
                _ => "several-subcommands-accepted",
            };
            vfail!(key, "'{text}': the step '{}' names {} sub-commands ({}) and is accepted at instantiation; a stack step must name exactly one sub-command, with well-formed arguments", c.step, c.named, c.family);
        }
        (Expect::Reject, Err(_)) => "rejected",
        (Expect::Is(_), Err(e)) => {
            vfail!("well-formed-rejected", "'{text}': the step '{}' names exactly one sub-command with well-formed arguments ({}; keys outside the gamut are ignored) but is rejected: {e:?}", c.step, c.family)
        }
        (Expect::Is(sem), Ok(())) => {
            for fwd in [true, false] {
                check(&behaviour_case(&c.step, sem, fwd, c.post, c.kind), rec)?;
            }
            rec.count("accepted_steps_compared_with_machine", 1);
            "accepted-behaves-as-named"
        }
        (Expect::IfAcceptedOneOf(_), Err(_)) | (Expect::Unasserted, Err(_)) => "unasserted-rejected",
        (Expect::Unasserted, Ok(())) => "unasserted-accepted",
        (Expect::IfAcceptedOneOf(sems), Ok(())) => {
            for fwd in [true, false] {
                let mut last: Option<Failure> = None;
                let mut hit = false;
                for sem in sems {
                    let mut scratch = Rec::default();
                    match check(&behaviour_case(&c.step, sem, fwd, c.post, c.kind), &mut scratch) {
                        Ok(()) => {
                            hit = true;
                            break;
                        }
                        Err(f) => last = Some(f),
                    }
                }
                if !hit {
                    let f = last.unwrap();
                    vfail!(format!("behaves-as-none-of-the-named:{}", f.key), "'{}' is accepted but behaves as none of {:?} ({}): {}", c.step, sems.iter().map(|i| i.text()).collect::<Vec<_>>(), c.family, f.msg);
                }
            }
            rec.count("accepted_steps_compared_with_machine", 1);
            "unasserted-accepted-behaves-as-one-named"
        }
    };
    rec.class(&format!("{}:{outcome}", c.family));
    rec.class(&format!("subcommands-named:{}", c.named));
    rec.class(["position:alone", "position:last-step", "position:first-step", "position:mid-program"][c.position as usize % 4]);
    rec.nontrivial(&text);
    Ok(())
}

struct Proto {
    family: &'static str,
    step: String,
    named: u8,
    expect: Expect,
}

fn members_of(mask: u8, variant: usize) -> Vec<String> {
    (0..7).filter(|k| mask & (1 << k) != 0).map(|k| MEMBERS[k][(variant + k) % 3].to_string()).collect()
}

/// what the documentation says about a step naming exactly the (well-formed) members given
fn expect_of(members: &[String]) -> Expect {
    if members.len() != 1 {
        return Expect::Reject;
    }
    match sem_of(&members[0]) {
        Some(sem) => Expect::Is(sem),
        None => Expect::Unasserted, // `stack drop`
    }
}

/// every subset of the sub-command keys, well-formed arguments for each member
fn subset_protos() -> Vec<Proto> {
    let mut v = vec![];
    for mask in 0..128u8 {
        for variant in 0..3 {
            for order in 0..4 {
                let members = members_of(mask, variant);
                let expect = expect_of(&members);
                let named = members.len() as u8;
                let step = std::iter::once("stack".to_string()).chain(reorder(members, order)).collect::<Vec<_>>().join(" ");
                v.push(Proto { family: "subset", step, named, expect });
            }
        }
    }
    v
}

fn place(mut members: Vec<String>, extra: String, placement: usize) -> Vec<String> {
    let at = match placement % 3 {
        0 => 0,
        1 => members.len(),
        _ => members.len() / 2,
    };
    members.insert(at, extra);
    members
}

fn variant_protos() -> Vec<Proto> {
    let mut v = vec![];
    let step_of = |members: Vec<String>| std::iter::once("stack".to_string()).chain(members).collect::<Vec<_>>().join(" ");
    // one to three well-formed members and one ill-formed member of another key
    for mask in 1..128u8 {
        if mask.count_ones() > 3 {
            continue;
        }
        for b in 0..SERIES_KEYS {
            if mask & (1 << b) != 0 {
                continue;
            }
            for j in 0..7 {
                for placement in 0..3 {
                    let members = place(members_of(mask, j), bad_member(b, j), placement);
                    v.push(Proto { family: "well-formed+ill-formed", step: step_of(members), named: mask.count_ones() as u8 + 1, expect: Expect::Reject });
                }
            }
        }
    }
    // a key given twice (what the tokenizer does with it is not documented: only "if accepted,
    // it is one of the sub-commands named" is asserted) ...
    for k in 0..7 {
        for a in 0..3 {
            for b in 0..3 {
                for sep in 0..2 {
                    let mut members = vec![MEMBERS[k][a].to_string(), MEMBERS[k][b].to_string()];
                    if sep == 1 {
                        members.insert(1, "foo".to_string());
                    }
                    let sems: Vec<Ins> = [a, b].iter().filter_map(|x| sem_of(MEMBERS[k][*x])).collect();
                    let expect = if sems.is_empty() { Expect::Unasserted } else { Expect::IfAcceptedOneOf(sems) };
                    v.push(Proto { family: "repeated-key", step: step_of(members), named: 1, expect });
                }
            }
        }
        // ... together with another sub-command: two sub-commands whatever the tokenizer keeps
        for o in 0..7 {
            if o == k {
                continue;
            }
            for placement in 0..3 {
                for a in 0..3 {
                    let members = place(vec![MEMBERS[k][a].to_string(), MEMBERS[k][(a + 1) % 3].to_string()], MEMBERS[o][a].to_string(), placement);
                    v.push(Proto { family: "repeated-key+other", step: step_of(members), named: 2, expect: Expect::Reject });
                }
            }
        }
    }
    // ... once well-formed and once ill-formed
    for k in 0..SERIES_KEYS {
        for j in 0..7 {
            for a in 0..3 {
                for order in 0..2 {
                    let members = reorder(vec![MEMBERS[k][a].to_string(), bad_member(k, j)], order);
                    v.push(Proto { family: "repeated-key-one-ill-formed", step: step_of(members), named: 1, expect: Expect::IfAcceptedOneOf(vec![sem_of(MEMBERS[k][a]).unwrap()]) });
                }
            }
        }
    }
    // keys outside the gamut are ignored: the verdict is that of the subset alone
    for (e, extra) in EXTRAS.iter().enumerate() {
        for mask in 0..128u8 {
            for placement in 0..3 {
                let members = members_of(mask, mask as usize + e);
                let expect = expect_of(&members);
                let named = members.len() as u8;
                let members = reorder(place(members, extra.to_string(), placement), if placement == 2 { 1 } else { 0 });
                v.push(Proto { family: "subset+unknown-keys", step: step_of(members), named, expect });
            }
        }
    }
    // legacy push/pop: the gamut is v_1..v_4, so the new-style keys are unknown keys there
    for (name, push) in [("push", true), ("pop", false)] {
        for lmask in 0..16u8 {
            for mask in 0..128u8 {
                for placement in 0..2 {
                    let new_style = reorder(members_of(mask, (lmask + mask) as usize), lmask as usize);
                    let legacy = flags(lmask, mask % 2 == 1);
                    let legacy = legacy.trim();
                    let mut parts = vec![name.to_string()];
                    if placement == 0 {
                        parts.push(legacy.to_string());
                        parts.extend(new_style);
                    } else {
                        parts.extend(new_style);
                        parts.push(legacy.to_string());
                    }
                    parts.retain(|p| !p.is_empty());
                    let sem = if push { Ins::LPush(lmask) } else { Ins::LPop(lmask) };
                    v.push(Proto { family: "legacy+new-style-keys", step: parts.join(" "), named: mask.count_ones() as u8, expect: Expect::Is(sem) });
                }
            }
        }
    }
    v
}

fn main() {
    let mut run = Run::init("C12");
    selftest_model();
    run.assume("flip with a repeated index is read sequentially (left to right), as are push and pop");
    run.assume("after a stack underflow only the count (0) is compared unless the underflow is the last executed step, where every tuple must carry NaN");
    run.assume("swap on fewer than two stack elements is unspecified: generated, executed (must not panic), result not compared");
    run.assume("a step reporting fewer successes than operands (down to zero) does not change what the following instructions do; the pipeline reports the minimum count over the executed steps; library steps are opaque: the reference applies the same operator standalone to a container of the same kind holding its current operand state");
    run.assume("a stack step is well-formed if and only if it names exactly one of the sub-command keys of the gamut (push, pop, roll, unroll, flip, swap, drop) with well-formed arguments; keys outside an operator's gamut are ignored (src/op/parameter.rs); `stack drop` alone (in the gamut, not in the documentation) and what the tokenizer does with a key given twice are not asserted");
    run.assume("operand sets in containers storing fewer than four dimensions: every step reads a tuple as the container reports it (height 0, epoch NaN, f32 values, adapter constants) and what it writes is kept in the stored dimensions only (documented container semantics)");

    let instrs = all_instructions();
    let n_ins = instrs.len();

    // 1. every single instruction x 4 preludes x 2 directions x {3 operands}
    {
        let instrs = instrs.clone();
        run.enumerate(
            "single-instruction",
            "all 1181 instructions (push/pop/flip lists of length<=4 over 1..4, roll/unroll |n|<m<=8, swap, legacy subsets) x 4 prelude depths (0,2,4,8) x both directions x operand sets of 0/1/3 tuples x 6 container kinds (Vec of Coor4D/3D/2D/32, (2D,h,t), (3D,t)); non-trivial = moves data off the stack",
            n_ins * 4 * 2 * 3 * KINDS,
            move |i| {
                let ins = instrs[i % n_ins].clone();
                let r = i / n_ins;
                let pre = r % 4;
                let fwd = (r / 4) % 2 == 0;
                let nops = [3usize, 1, 0][(r / 8) % 3];
                let kind = (r / 24) as u8;
                let mut exec = prelude(pre);
                exec.push(ins);
                Case { prog: arrange(&exec, fwd), fwd, n_operands: nops, offset: 0, kind, opset: 0 }
            },
            check,
        );
    }

    // 2. pairs of instructions after the deepest prelude: sampled (quick) / exhaustive (thorough)
    {
        let instrs = instrs.clone();
        let total = n_ins * n_ins * 2;
        if run.is_thorough() {
            run.enumerate(
                "instruction-pairs",
                "all ordered pairs of instructions after a depth-8 prelude x both directions, 2 operands",
                total,
                move |i| {
                    let a = instrs[i % n_ins].clone();
                    let b = instrs[(i / n_ins) % n_ins].clone();
                    let fwd = i / (n_ins * n_ins) == 0;
                    let mut exec = prelude(3);
                    exec.push(a);
                    exec.push(b);
                    Case { prog: arrange(&exec, fwd), fwd, n_operands: 2, offset: 7, kind: (i % KINDS) as u8, opset: 0 }
                },
                check,
            );
        } else {
            let n = run.scale(120_000, 0);
            let seed = run.seed;
            run.sweep(
                "instruction-pairs",
                "ordered pairs of instructions (index sampled by a seeded multiplicative walk over all 1181^2 x 2) after a depth-8 prelude, 2 operands",
                n,
                move |i| {
                    let k = ((i as u64).wrapping_mul(0x9E3779B97F4A7C15).wrapping_add(seed.wrapping_mul(0xD1342543DE82EF95)) >> 11) as usize % total;
                    let a = instrs[k % n_ins].clone();
                    let b = instrs[(k / n_ins) % n_ins].clone();
                    let fwd = k / (n_ins * n_ins) == 0;
                    let mut exec = prelude(3);
                    exec.push(a);
                    exec.push(b);
                    Case { prog: arrange(&exec, fwd), fwd, n_operands: 2, offset: 7, kind: (i % KINDS) as u8, opset: 0 }
                },
                check,
            );
        }
    }

    // 3. random depth-aware programs
    let n = run.scale(40_000, 1_200_000);
    let maxlen = if run.is_thorough() { 24 } else { 12 };
    run.section(
        "random-programs",
        "depth-aware random programs (4% of instructions unconstrained, so underflow occurs) interleaved with addone/axisswap, both directions, 0..120 operands, applied three times; non-trivial = contains pop/flip/roll/unroll/swap and has operands; distinct by program text and direction",
        n,
        move || random_case(maxlen),
        check,
    );

    // 3b. stack programs around one step that reports fewer successes than operands
    {
        let steps = failing_steps();
        let ns = steps.len();
        const NOPS: [usize; 2] = [3, 1];
        const SETS: [u8; 3] = [0, 3, 6];
        run.enumerate(
            "failing-step-sandwich",
            "every step that may report fewer successes than operands (vstep: 4 data modes x counts 0/1/n-1/n x 2 dims x inv; 13 library operators incl. the one-way curvature/gravity, both orientations) x 12 stack programs around it (save/restore with stack push/pop, legacy push/pop, flip, roll, unroll, swap, step twice, step first/last, underflow last / mid-program) x both directions x 6 container kinds x operand sets of 3/1 tuples x 3 operand flavours (arithmetic, geographic in/out of domain mixed, everything mixed); every instruction is executed whatever the earlier counts; values bit for bit, count = minimum over the executed steps; non-trivial = a stack instruction wrote into the operands after a step reported fewer successes than operands",
            ns * SANDWICHES * 2 * KINDS * NOPS.len() * SETS.len(),
            move |i| {
                let step = &steps[i % ns];
                let r = i / ns;
                let exec = sandwich(r % SANDWICHES, step);
                let r = r / SANDWICHES;
                let fwd = r % 2 == 0;
                let kind = ((r / 2) % KINDS) as u8;
                let r = r / (2 * KINDS);
                let n_operands = NOPS[r % NOPS.len()];
                let opset = SETS[(r / NOPS.len()) % SETS.len()];
                Case { prog: arrange(&exec, fwd), fwd, n_operands, offset: 3, kind, opset }
            },
            check,
        );
    }

    // 3c. random programs with such steps
    let n = run.scale(12_000, 400_000);
    run.section(
        "random-programs-failing-steps",
        "depth-aware random programs in which 30% of the steps may report fewer successes than operands (vstep with arbitrary count and data mode, library operators on operand sets partly or wholly outside their domain, one-way operators), interleaved with addone/axisswap, both directions, 1..60 operands of 7 flavours in 6 container kinds, applied three times; reference machine executes every instruction, library steps evaluated standalone on the machine's state; non-trivial = a stack instruction wrote into the operands after a step reported fewer successes than operands and the values were compared",
        n,
        move || random_failing_case(maxlen),
        check,
    );

    // 4. rejection of ill-formed sub-commands
    let bad = ill_formed();
    let nb = bad.len();
    run.enumerate(
        "ill-formed-rejected",
        "ill-formed sub-commands (index 0/5/-1/1.5/non-numeric, wrong arity, |n|>=m, two sub-commands, none) in three positions of a pipeline must give Err at instantiation",
        nb * 3,
        move |i| RejectCase { step: bad[i % nb].clone(), position: (i / nb) as u8 },
        check_reject,
    );

    // 5. the structure of a stack step: all subsets of the sub-command keys
    {
        let protos = subset_protos();
        let np = protos.len();
        run.enumerate(
            "step-structure-subsets",
            "all 2^7 subsets of the sub-command keys of the gamut (push, pop, roll, unroll, flip, swap, drop), each member with well-formed arguments (3 spellings per key) x 4 textual orders x 4 positions (on its own, last / first step of a pipeline, inside a stack program): accepted at instantiation if and only if exactly one sub-command is named (0 and 2..7 must give Err; `stack drop` alone not asserted); an accepted step is run in both directions after a depth-10 prelude and compared with the reference machine executing that one sub-command",
            np * 4,
            move |i| {
                let p = &protos[i % np];
                StepCase { family: p.family.to_string(), step: p.step.clone(), named: p.named, expect: p.expect.clone(), position: (i / np) as u8, kind: (i % KINDS) as u8, post: (i % 3) as u8 }
            },
            check_step,
        );
    }

    // 6. ... and mixtures, repeated keys, unknown keys, legacy steps with new-style keys
    {
        let protos = variant_protos();
        let np = protos.len();
        run.enumerate(
            "step-structure-variants",
            "1-3 well-formed members plus one ill-formed member of another key (7 kinds of ill-formed argument, 3 placements): Err; a key given twice (both well-formed / one ill-formed: acceptance not asserted, if accepted the step must behave as one of the well-formed sub-commands named) and twice plus another sub-command: Err; every subset of the sub-command keys plus keys outside the gamut (8 kinds incl. legacy flags and near misses of the key names, 3 placements): verdict and behaviour of the subset alone; legacy push/pop x 16 subsets of v_1..v_4 x every subset of the new-style keys (unknown to the legacy gamut, hence ignored): accepted, behaves as the legacy step; all x 4 positions",
            np * 4,
            move |i| {
                let p = &protos[i % np];
                StepCase { family: p.family.to_string(), step: p.step.clone(), named: p.named, expect: p.expect.clone(), position: (i / np) as u8, kind: ((i / 3) % KINDS) as u8, post: (i % 3) as u8 }
            },
            check_step,
        );
    }

    run.finish("generated stack programs checked against a reference interpreter transcribed from Rumination 002; see sections");
}
