//! C15 — grid files decode faithfully; damaged files are rejected rather than crashing.
//!
//! Well-formed part: the harness' own encoders (Gravsoft text in many layouts, NTv2 binary
//! in both byte orders with sub-grid trees in arbitrary file order) produce files from a
//! specification; the library's decode is compared with the specification through the public
//! `Grid` API only (`bands`, `contains`, `at`). The shipped `.gsb` files are compared with their
//! `.gsa` ASCII twins (parsed here; the library does not read `.gsa`).
//!
//! Node values are not only continuous random numbers: the `*-special-values*` sections put the
//! numbers that formats and codes conventionally treat as sentinels or limits (0, -0, 9999 in many
//! spellings, -9999, 99999, 32767, -32768, 1e30, f32::MAX, subnormals ...) into every band, node
//! record column, position class and byte order, and compare per node (the documentation gives no
//! node value a special meaning). NaN/inf literals in a text grid: Err or safe query only.
//!
//! Fault part: truncations (exhaustive), single-bit flips in header records (exhaustive),
//! multi-byte corruptions and token-level faults; oracle = `Err`, or a grid whose `contains`/`at`
//! return for arbitrary points, without panic, hang or unbounded allocation.
//!
//! The byte-level oracle is `check_grid_bytes` (self-contained; also used by the libFuzzer target).

use geodesy::authoring::{BaseGrid, Coor4D, Grid, Ntv2Grid};
use proptest::prelude::*;
use serde::{Deserialize, Deserializer, Serialize, Serializer};
use std::collections::{BTreeMap, BTreeSet};
use std::sync::atomic::{AtomicI64, Ordering};
use std::sync::{Arc, OnceLock};
use std::time::Duration;
use vcore::geo::{pick, F};
use vcore::guard::guard;
use vcore::*;

// =====================================================================================
// Counting allocator: per-thread peak of live bytes and largest single request while a
// probe is active. Requests of 1 GiB and more are served by a lazily committed mapping,
// so that a decoder asking for an absurd capacity is *recorded* instead of aborting the
// process.
// =====================================================================================
mod alloc_track {
    use std::alloc::{GlobalAlloc, Layout, System};
    use std::cell::Cell;

    thread_local! {
        static ACTIVE: Cell<bool> = const { Cell::new(false) };
        static CUR: Cell<isize> = const { Cell::new(0) };
        static PEAK: Cell<isize> = const { Cell::new(0) };
        static LARGEST: Cell<usize> = const { Cell::new(0) };
    }
    const BIG: usize = 1 << 30;

    pub struct Counting;

    fn on_alloc(size: usize) {
        let _ = ACTIVE.try_with(|a| {
            if a.get() {
                let _ = CUR.try_with(|c| {
                    let v = c.get().saturating_add(size as isize);
                    c.set(v);
                    let _ = PEAK.try_with(|p| {
                        if v > p.get() {
                            p.set(v)
                        }
                    });
                });
                let _ = LARGEST.try_with(|l| {
                    if size > l.get() {
                        l.set(size)
                    }
                });
            }
        });
    }
    fn on_free(size: usize) {
        let _ = ACTIVE.try_with(|a| {
            if a.get() {
                let _ = CUR.try_with(|c| c.set(c.get().saturating_sub(size as isize)));
            }
        });
    }

    unsafe fn big_map(size: usize) -> *mut u8 {
        let p = libc::mmap(
            std::ptr::null_mut(),
            size,
            libc::PROT_READ | libc::PROT_WRITE,
            libc::MAP_PRIVATE | libc::MAP_ANONYMOUS | libc::MAP_NORESERVE,
            -1,
            0,
        );
        if p == libc::MAP_FAILED {
            std::ptr::null_mut()
        } else {
            p as *mut u8
        }
    }

    unsafe impl GlobalAlloc for Counting {
        unsafe fn alloc(&self, l: Layout) -> *mut u8 {
            on_alloc(l.size());
            if l.size() >= BIG && l.align() <= 4096 {
                big_map(l.size())
            } else {
                System.alloc(l)
            }
        }
        unsafe fn alloc_zeroed(&self, l: Layout) -> *mut u8 {
            on_alloc(l.size());
            if l.size() >= BIG && l.align() <= 4096 {
                big_map(l.size()) // anonymous mappings are zero filled
            } else {
                System.alloc_zeroed(l)
            }
        }
        unsafe fn dealloc(&self, p: *mut u8, l: Layout) {
            on_free(l.size());
            if l.size() >= BIG && l.align() <= 4096 {
                libc::munmap(p as *mut libc::c_void, l.size());
            } else {
                System.dealloc(p, l)
            }
        }
        unsafe fn realloc(&self, p: *mut u8, l: Layout, new_size: usize) -> *mut u8 {
            if (l.size() >= BIG || new_size >= BIG) && l.align() <= 4096 {
                let nl = Layout::from_size_align_unchecked(new_size, l.align());
                let q = self.alloc(nl);
                if !q.is_null() {
                    std::ptr::copy_nonoverlapping(p, q, l.size().min(new_size));
                    self.dealloc(p, l);
                }
                q
            } else {
                on_alloc(new_size);
                on_free(l.size());
                System.realloc(p, l, new_size)
            }
        }
    }

    /// Start measuring on this thread.
    pub fn start() {
        CUR.with(|c| c.set(0));
        PEAK.with(|c| c.set(0));
        LARGEST.with(|c| c.set(0));
        ACTIVE.with(|c| c.set(true));
    }
    /// Stop measuring; returns (peak of live bytes allocated since start, largest single request).
    pub fn stop() -> (usize, usize) {
        ACTIVE.with(|c| c.set(false));
        (PEAK.with(|c| c.get()).max(0) as usize, LARGEST.with(|c| c.get()))
    }
}

#[global_allocator]
static GLOBAL: alloc_track::Counting = alloc_track::Counting;

// =====================================================================================
// Small helpers
// =====================================================================================

/// Byte string serialised as hex text.
#[derive(Clone, Debug, PartialEq, Eq, Hash, Default)]
struct Hex(Vec<u8>);
impl Serialize for Hex {
    fn serialize<S: Serializer>(&self, s: S) -> Result<S::Ok, S::Error> {
        let mut t = String::with_capacity(self.0.len() * 2);
        for b in &self.0 {
            t.push_str(&format!("{b:02x}"));
        }
        s.serialize_str(&t)
    }
}
impl<'de> Deserialize<'de> for Hex {
    fn deserialize<D: Deserializer<'de>>(d: D) -> Result<Hex, D::Error> {
        let s = String::deserialize(d)?;
        let b = s.as_bytes();
        if b.len() % 2 != 0 {
            return Err(serde::de::Error::custom("odd hex length"));
        }
        let mut v = Vec::with_capacity(b.len() / 2);
        for i in (0..b.len()).step_by(2) {
            let t = std::str::from_utf8(&b[i..i + 2]).map_err(serde::de::Error::custom)?;
            v.push(u8::from_str_radix(t, 16).map_err(serde::de::Error::custom)?);
        }
        Ok(Hex(v))
    }
}

fn hex_head(b: &[u8], n: usize) -> String {
    let mut s = String::new();
    for x in b.iter().take(n) {
        s.push_str(&format!("{x:02x}"));
    }
    if b.len() > n {
        s.push('…');
    }
    s
}

type KM = (String, String); // (failure key, message)

/// Stable panic signature: source file below src/ + message with every run of digits collapsed
/// to one '#', and slice start/end wording unified (one class: unchecked offset).
fn psig(p: &vcore::guard::PanicInfo) -> String {
    let file = p.file.rsplit("/src/").next().unwrap_or(&p.file);
    let mut msg = p.msg.replace("range start index", "range index").replace("range end index", "range index");
    if let Some(i) = msg.find("or either was NaN") {
        msg.truncate(i + "or either was NaN".len()); // f64::clamp: the offending values vary
    }
    let mut m = String::new();
    let mut last_digit = false;
    for c in msg.chars().take(90) {
        if c.is_ascii_digit() {
            if !last_digit {
                m.push('#');
            }
            last_digit = true;
        } else {
            m.push(c);
            last_digit = false;
        }
    }
    format!("{file}:{m}")
}

fn km<T>(key: impl Into<String>, msg: impl Into<String>) -> Result<T, KM> {
    Err((key.into(), msg.into()))
}
fn to_failure(r: Result<(), KM>, ctx: &str) -> CaseResult {
    match r {
        Ok(()) => Ok(()),
        Err((key, msg)) => Err(Failure { key, msg: format!("{ctx}\n{msg}") }),
    }
}

/// arc seconds -> radians, spelled exactly as the NTv2 convention is usually written
fn sec2rad(v: f64) -> f64 {
    v.to_radians() / 3600.
}

// =====================================================================================
// Reference model of a decoded (sub-)grid, in the units/orientation `at` must deliver
// =====================================================================================

#[derive(Clone, Debug)]
struct SubModel {
    name: String,
    parent: String,
    n: f64,
    s: f64,
    w: f64,
    e: f64,
    dlat: f64, // > 0
    dlon: f64, // > 0
    rows: usize,
    cols: usize,
    bands: usize,
    /// row-major from the north-west corner, bands interleaved, already in `at` units and order
    vals: Vec<f64>,
}

impl SubModel {
    fn node(&self, r: usize, c: usize) -> (f64, f64) {
        (self.w + c as f64 * self.dlon, self.n - r as f64 * self.dlat)
    }
    /// bilinear value at (lon, lat) and the magnitude scale of the four corners
    fn bilinear(&self, lon: f64, lat: f64) -> ([f64; 4], f64) {
        let fr = (self.n - lat) / self.dlat;
        let fc = (lon - self.w) / self.dlon;
        let r0 = (fr.floor().max(0.0) as usize).min(self.rows - 2);
        let c0 = (fc.floor().max(0.0) as usize).min(self.cols - 2);
        let tr = fr - r0 as f64;
        let tc = fc - c0 as f64;
        let mut out = [0.0; 4];
        let mut scale = 0.0f64;
        for b in 0..self.bands.min(4) {
            let v = |r: usize, c: usize| self.vals[(r * self.cols + c) * self.bands + b];
            let (v00, v01, v10, v11) = (v(r0, c0), v(r0, c0 + 1), v(r0 + 1, c0), v(r0 + 1, c0 + 1));
            scale = scale.max(v00.abs()).max(v01.abs()).max(v10.abs()).max(v11.abs());
            out[b] = (1.0 - tr) * ((1.0 - tc) * v00 + tc * v01) + tr * ((1.0 - tc) * v10 + tc * v11);
        }
        (out, scale)
    }
    /// Bilinear value at (lon, lat) with a *per-node* tolerance: every corner contributes its
    /// weight times (rtol x |its own value| + floor); on top of that the uncertainty of the weights
    /// themselves (rounding of (coordinate - origin) / spacing, in the harness and in the library,
    /// which may also pick the neighbouring cell at an exact node) times the largest magnitude among
    /// all nodes within one cell of the query point.
    fn bilinear_sharp(&self, lon: f64, lat: f64, rtol: f64, floor: f64) -> ([f64; 4], [f64; 4]) {
        let fr = (self.n - lat) / self.dlat;
        let fc = (lon - self.w) / self.dlon;
        let r0 = (fr.floor().max(0.0) as usize).min(self.rows - 2);
        let c0 = (fc.floor().max(0.0) as usize).min(self.cols - 2);
        let tr = fr - r0 as f64;
        let tc = fc - c0 as f64;
        let wn = 16.0 * f64::EPSILON * (self.n.abs().max(self.s.abs()) / self.dlat + self.w.abs().max(self.e.abs()) / self.dlon) + 1e-12;
        let rlo = (fr - 1.001).ceil().max(0.0) as usize;
        let rhi = ((fr + 1.001).floor().max(0.0) as usize).min(self.rows - 1);
        let clo = (fc - 1.001).ceil().max(0.0) as usize;
        let chi = ((fc + 1.001).floor().max(0.0) as usize).min(self.cols - 1);
        let mut out = [0.0; 4];
        let mut tol = [0.0; 4];
        for b in 0..self.bands.min(4) {
            let v = |r: usize, c: usize| self.vals[(r * self.cols + c) * self.bands + b];
            let corners = [((1.0 - tr) * (1.0 - tc), v(r0, c0)), ((1.0 - tr) * tc, v(r0, c0 + 1)), (tr * (1.0 - tc), v(r0 + 1, c0)), (tr * tc, v(r0 + 1, c0 + 1))];
            let mut near = 0.0f64;
            for r in rlo..=rhi.max(rlo).min(self.rows - 1) {
                for c in clo..=chi.max(clo).min(self.cols - 1) {
                    near = near.max(v(r, c).abs());
                }
            }
            for (w, x) in corners {
                out[b] += w * x;
                tol[b] += w.abs() * (rtol * x.abs() + floor);
            }
            tol[b] += 4.0 * wn * near;
        }
        (out, tol)
    }
}

// =====================================================================================
// Gravsoft: specification, encoder (layouts), independent reader, decode oracle
// =====================================================================================

/// What a Gravsoft file says, in file units and file order.
#[derive(Clone, Debug, Serialize, Deserialize)]
struct GravSpec {
    lat_s: F,
    lat_n: F,
    lon_w: F,
    lon_e: F,
    dlat: F, // magnitude
    dlon: F, // magnitude
    rows: usize,
    cols: usize,
    bands: usize,
    /// rows from the north, columns from the west, bands interleaved, as written in the file
    values: Vec<F>,
}

impl GravSpec {
    fn angular(&self) -> bool {
        [self.lat_s.0, self.lat_n.0, self.lon_w.0, self.lon_e.0].iter().all(|h| h.abs() <= 720.)
    }
    /// Documented conventions: header in degrees -> radians unless any bound exceeds 720 in
    /// magnitude (then linear units, values kept); 1 band kept; 2 bands (lat, lon) arcsec ->
    /// (lon, lat) radians; 3 bands (n, e, u) mm/year -> (e, n, u) m/year.
    fn model(&self) -> SubModel {
        let ang = self.angular();
        let u = |v: f64| if ang { v.to_radians() } else { v };
        let mut vals = Vec::with_capacity(self.values.len());
        for node in self.values.chunks(self.bands) {
            let v: Vec<f64> = node.iter().map(|x| x.0).collect();
            match (ang, self.bands) {
                (true, 2) => {
                    vals.push((v[1] / 3600.).to_radians());
                    vals.push((v[0] / 3600.).to_radians());
                }
                (true, 3) => {
                    vals.push(v[1] / 1000.);
                    vals.push(v[0] / 1000.);
                    vals.push(v[2] / 1000.);
                }
                _ => vals.extend(v),
            }
        }
        SubModel {
            name: String::new(),
            parent: String::new(),
            n: u(self.lat_n.0),
            s: u(self.lat_s.0),
            w: u(self.lon_w.0),
            e: u(self.lon_e.0),
            dlat: u(self.dlat.0),
            dlon: u(self.dlon.0),
            rows: self.rows,
            cols: self.cols,
            bands: self.bands,
            vals,
        }
    }
}

/// Number spellings accepted by every Gravsoft producer/consumer (and by `f64::from_str`).
/// Styles 0..=4 and 7 are lossless, 5 and 6 round (the value written is then what counts).
fn fmt_num(v: f64, style: u8) -> String {
    match style {
        1 => {
            if v.fract() == 0.0 {
                format!("{v}.")
            } else {
                format!("{v}")
            }
        }
        2 => format!("{v:e}"),
        3 => format!("{v:+}"),
        4 => {
            if (0.0..10.0).contains(&v) {
                format!("0{v}")
            } else {
                format!("{v}")
            }
        }
        5 => format!("{v:.3}"),
        6 => format!("{v:.6}"),
        7 => format!("{v:E}"),
        _ => format!("{v}"),
    }
}

#[derive(Clone, Debug)]
struct GravLayout {
    comments_top: u8,
    header_split: u8,
    per_line: u8,
    sep: u8,
    crlf: bool,
    trailing_comments: bool,
    blank_lines: bool,
    hdr_style: u8,
    val_style: u8,
    dlat_neg: bool,
    dlon_neg: bool,
    tail: u8,
    indent: bool,
    /// how a trailing comment is attached: 0 after whitespace, 1..=5 glued to the preceding number
    glue: u8,
    /// comment after every header line (not only after the sixth number)
    hdr_comments: bool,
    /// comment directly after the last value of the file
    last_comment: bool,
    /// where the line breaks go (see grav_render), with its two parameters
    wrap: u8,
    wrap_k: u16,
    wrap_seed: u32,
}

/// A trailing comment: everything from '#' to the end of the line is discarded, whether or not
/// whitespace precedes the '#'.
fn trailing_comment(glue: u8, k: usize) -> String {
    match glue % 6 {
        0 => format!("   # comment {k} 1.5 2.5"),
        1 => "#south row".to_string(),
        2 => format!("#2.5 3.5 {k}"),
        3 => "#a#b ## 7 #8 #".to_string(),
        4 => "#".to_string(),
        _ => " #9".to_string(),
    }
}

/// Render; returns the text and the specification *as written* (values parsed back from
/// their spelling, so that rounding styles cannot make the oracle demand more than the file says).
fn grav_render(raw: &GravSpec, lay: &GravLayout) -> (String, GravSpec) {
    grav_render_with(raw, lay, &BTreeMap::new())
}

/// As `grav_render`, with the spelling of some node values (index into `raw.values`) given verbatim.
fn grav_render_with(raw: &GravSpec, lay: &GravLayout, verbatim: &BTreeMap<usize, String>) -> (String, GravSpec) {
    let nl = if lay.crlf { "\r\n" } else { "\n" };
    let sep = ["  ", " ", "\t", "    "][lay.sep as usize % 4];
    let hs = [0u8, 1, 2, 3, 4, 7][lay.hdr_style as usize % 6];
    let mut t = String::new();
    let comments = [
        "# generated grid",
        "# 1 2 3 4 5 6  numbers inside a comment are not data",
        "#",
        "#### double ## hash 54. 58. 8. 16. 1. 1.",
        "# æøå utf-8 in comment",
    ];
    for i in 0..lay.comments_top as usize % 5 {
        t.push_str(comments[i % comments.len()]);
        t.push_str(nl);
        if lay.blank_lines && i % 2 == 1 {
            t.push_str(nl);
        }
    }
    let hdr = [
        fmt_num(raw.lat_s.0, hs),
        fmt_num(raw.lat_n.0, hs),
        fmt_num(raw.lon_w.0, hs),
        fmt_num(raw.lon_e.0, hs),
        fmt_num(if lay.dlat_neg { -raw.dlat.0 } else { raw.dlat.0 }, hs),
        fmt_num(if lay.dlon_neg { -raw.dlon.0 } else { raw.dlon.0 }, hs),
    ];
    let breaks: &[usize] = match lay.header_split % 4 {
        0 => &[6],
        1 => &[1, 2, 3, 4, 5, 6],
        2 => &[2, 4, 6],
        _ => &[4, 6],
    };
    let per_line = match lay.per_line % 4 {
        0 => raw.cols * raw.bands,
        1 => raw.bands,
        2 => 1,
        _ => 5,
    };
    // all tokens of the file: six header numbers, then the values
    let mut toks: Vec<String> = hdr.to_vec();
    let mut written = Vec::with_capacity(raw.values.len());
    for (i, v) in raw.values.iter().enumerate() {
        let s = match verbatim.get(&i) {
            Some(t) => t.clone(),
            None => fmt_num(v.0, lay.val_style % 8),
        };
        written.push(F(s.parse::<f64>().expect("own spelling parses")));
        toks.push(s);
    }
    let n = toks.len();
    // Line layout, independent of the content: the format is a whitespace separated number
    // sequence, so a line break may follow any token (or none at all).
    let mut brk = vec![false; n];
    match lay.wrap % 10 {
        // structured: header split as chosen, then rows / nodes / values / 5 per line
        0..=3 => {
            for b in breaks {
                brk[*b - 1] = true;
            }
            for i in 0..n - 6 {
                if (i + 1) % per_line == 0 {
                    brk[6 + i] = true;
                }
            }
        }
        // the whole file on one line
        4 => {}
        // k numbers per line, counted from the first header number (k = 1..n; 7 is a classic)
        5 => {
            let k = if lay.wrap_k % 5 == 0 { 7 } else { 1 + lay.wrap_k as usize % n };
            for i in 0..n {
                if (i + 1) % k == 0 {
                    brk[i] = true;
                }
            }
        }
        // header and first row on one line, then one row per line
        6 => {
            let row = raw.cols * raw.bands;
            for i in 0..n - 6 {
                if (i + 1) % row == 0 {
                    brk[6 + i] = true;
                }
            }
        }
        // the header ends in the middle of a line: break after 1..5 header numbers, next break
        // somewhere in the data
        7 => {
            brk[lay.wrap_k as usize % 5] = true;
            let mut x = lay.wrap_seed as u64 | 1;
            let mut i = 6 + (lay.wrap_seed as usize % (n - 6));
            while i < n {
                brk[i] = true;
                x ^= x << 13;
                x ^= x >> 7;
                x ^= x << 17;
                i += 1 + (x as usize % 9);
            }
        }
        // random breaks: after every token with probability 1/2, 1/4 or 1/8
        _ => {
            let mut x = (lay.wrap_seed as u64) << 1 | 1;
            let mask = [1u64, 3, 7][lay.wrap_k as usize % 3];
            for b in brk.iter_mut() {
                x ^= x << 13;
                x ^= x >> 7;
                x ^= x << 17;
                *b = (x >> 9) & mask == 0;
            }
        }
    }
    let mut line_no = 0usize;
    let mut at_line_start = true;
    for (i, tok) in toks.iter().enumerate() {
        if lay.indent && at_line_start {
            t.push_str(if i < 6 { "   " } else { "    " });
        }
        t.push_str(tok);
        let last = i + 1 == n;
        if brk[i] || (last && lay.last_comment) {
            // trailing comments sit where a line ends
            let want = if i < 6 { lay.trailing_comments && (i == 5 || lay.hdr_comments) } else { (lay.trailing_comments && line_no % 3 == 0) || (last && lay.last_comment) };
            if want {
                if lay.glue % 6 == 0 && i == 5 {
                    t.push_str(" # header ends here 99 98");
                } else {
                    t.push_str(&trailing_comment(lay.glue, i));
                }
            }
            t.push_str(nl);
            if lay.blank_lines && (i == 5 || (i > 5 && line_no % 4 == 3)) {
                t.push_str(nl);
            }
            line_no += 1;
            at_line_start = true;
        } else {
            t.push_str(sep);
            at_line_start = false;
        }
    }
    match lay.tail % 4 {
        0 => {
            // no final newline
            while t.ends_with('\n') || t.ends_with('\r') {
                t.pop();
            }
        }
        1 => {
            if !t.ends_with('\n') {
                t.push_str(nl);
            }
        }
        2 => {
            if !t.ends_with('\n') {
                t.push_str(nl);
            }
            t.push_str(nl);
            t.push_str("# end of grid 1 2 3");
        }
        _ => {
            if !t.ends_with('\n') {
                t.push_str(nl);
            }
            t.push_str(nl);
            t.push_str("   \t ");
            t.push_str(nl);
        }
    }
    let mut spec = raw.clone();
    spec.values = written;
    let p = |s: &String| F(s.parse::<f64>().expect("own spelling parses"));
    spec.lat_s = p(&hdr[0]);
    spec.lat_n = p(&hdr[1]);
    spec.lon_w = p(&hdr[2]);
    spec.lon_e = p(&hdr[3]);
    (t, spec)
}

/// Token byte ranges of a Gravsoft text (outside `#` comments), the way the format is defined:
/// whitespace separated numbers, `#` starts a comment running to the end of the line.
fn grav_tokens(bytes: &[u8]) -> Vec<(usize, usize)> {
    let mut out = vec![];
    let mut i = 0;
    let n = bytes.len();
    while i < n {
        let b = bytes[i];
        if b == b'#' {
            while i < n && bytes[i] != b'\n' {
                i += 1;
            }
        } else if b.is_ascii_whitespace() {
            i += 1;
        } else {
            let st = i;
            while i < n && !bytes[i].is_ascii_whitespace() && bytes[i] != b'#' {
                i += 1;
            }
            out.push((st, i));
        }
    }
    out
}

/// Independent reader used for the shipped Gravsoft files (strict: every token must be a number,
/// extents must be whole multiples of the spacing, value count a whole number of bands).
fn grav_reference_read(bytes: &[u8]) -> Result<GravSpec, String> {
    let toks = grav_tokens(bytes);
    let mut nums = Vec::with_capacity(toks.len());
    for (a, b) in &toks {
        let s = std::str::from_utf8(&bytes[*a..*b]).map_err(|e| e.to_string())?;
        nums.push(s.parse::<f64>().map_err(|e| format!("token '{s}': {e}"))?);
    }
    if nums.len() < 7 {
        return Err("too few tokens".into());
    }
    let (lat_s, lat_n, lon_w, lon_e, dlat, dlon) = (nums[0], nums[1], nums[2], nums[3], nums[4].abs(), nums[5].abs());
    let fr = (lat_n - lat_s) / dlat;
    let fc = (lon_e - lon_w) / dlon;
    if !(fr > 0.5 && fc > 0.5 && (fr - fr.round()).abs() < 1e-6 && (fc - fc.round()).abs() < 1e-6) {
        return Err(format!("extent is not a whole number of cells: {fr} x {fc}"));
    }
    let rows = fr.round() as usize + 1;
    let cols = fc.round() as usize + 1;
    let nv = nums.len() - 6;
    if nv % (rows * cols) != 0 || nv == 0 {
        return Err(format!("{nv} values for {rows} x {cols} nodes"));
    }
    Ok(GravSpec {
        lat_s: F(lat_s),
        lat_n: F(lat_n),
        lon_w: F(lon_w),
        lon_e: F(lon_e),
        dlat: F(dlat),
        dlon: F(dlon),
        rows,
        cols,
        bands: nv / (rows * cols),
        values: nums[6..].iter().map(|v| F(*v)).collect(),
    })
}

struct WfStats {
    nodes_checked: u64,
    probes: u64,
    skipped_ambiguous: u64,
    worst_rel: f64,
}

const VALUE_RTOL: f64 = 1.0e-6; // f32 storage (2^-24) and up to three f32 roundings in the unit conversion

fn cmp_value(lib: &Coor4D, exp: &[f64; 4], scale: f64, bands: usize, worst: &mut f64) -> Option<String> {
    for b in 0..bands.min(4) {
        let tol = VALUE_RTOL * scale + 1e-30;
        let d = (lib[b] - exp[b]).abs();
        if scale > 0.0 {
            *worst = worst.max(d / scale);
        }
        if !(d <= tol) {
            return Some(format!("band {b}: library {:?} vs file {:?} (|diff| {d:e} > tol {tol:e})", lib[b], exp[b]));
        }
    }
    None
}

/// f32 storage: a value below the normal range is rounded to a multiple of 2^-149 = 1.4e-45 in
/// each of at most three f32 steps.
const VALUE_FLOOR_SHARP: f64 = 1.0e-44;

/// Per-node comparison (see `SubModel::bilinear_sharp`); `worst` keeps the largest |diff| / tol.
fn cmp_sharp(lib: &Coor4D, exp: &[f64; 4], tol: &[f64; 4], bands: usize, worst: &mut f64) -> Option<String> {
    for b in 0..bands.min(4) {
        let d = (lib[b] - exp[b]).abs();
        if !(d <= tol[b]) {
            return Some(format!("band {b}: library {:?} vs file {:?} (|diff| {d:e} > tol {:e})", lib[b], exp[b], tol[b]));
        }
        if tol[b] > 0.0 {
            *worst = worst.max(d / tol[b]);
        }
    }
    None
}

/// decode(text) must be the grid `spec` describes. `sharp`: per-node tolerance instead of the
/// per-cell one (used where node values of very different magnitude sit next to each other).
fn check_grav_decode(text: &[u8], spec: &GravSpec, sharp: bool) -> Result<WfStats, KM> {
    let mut st = WfStats { nodes_checked: 0, probes: 0, skipped_ambiguous: 0, worst_rel: 0.0 };
    let grid = match guard(|| BaseGrid::gravsoft(text)) {
        Err(p) => return km(format!("panic-decode@{}", psig(&p)), format!("BaseGrid::gravsoft panics on a well-formed file: {} at {}:{}", p.msg, p.file, p.line)),
        Ok(Err(e)) => return km("wellformed-gravsoft-rejected", format!("well-formed Gravsoft file rejected: {e:?}")),
        Ok(Ok(g)) => g,
    };
    if grid.bands() != spec.bands {
        return km("gravsoft-band-count", format!("file has {} values per node, decoded grid reports {} bands", spec.bands, grid.bands()));
    }
    let m = spec.model();
    // geometry through `contains`
    let midlat = m.s + 0.37 * (m.n - m.s);
    let midlon = m.w + 0.41 * (m.e - m.w);
    for (side, base, cell, sign, is_lat) in [
        ("north", m.n, m.dlat, 1.0, true),
        ("south", m.s, m.dlat, -1.0, true),
        ("east", m.e, m.dlon, 1.0, false),
        ("west", m.w, m.dlon, -1.0, false),
    ] {
        for (off, margin, expect) in [(-0.01, 0.0, true), (0.01, 0.0, false), (0.49, 0.5, true), (0.51, 0.5, false), (-0.01, 0.5, true)] {
            let v = base + sign * off * cell;
            let c = if is_lat { Coor4D([midlon, v, 0., 0.]) } else { Coor4D([v, midlat, 0., 0.]) };
            let got = match guard(|| grid.contains(&c, margin)) {
                Err(p) => return km(format!("panic-query-wellformed@{}", psig(&p)), format!("contains({c:?}, {margin}) panics: {} at {}:{}", p.msg, p.file, p.line)),
                Ok(g) => g,
            };
            st.probes += 1;
            if got != expect {
                return km(
                    "gravsoft-geometry",
                    format!("{side} edge: a point {off} cells beyond the {side} boundary ({c:?}) gives contains(margin {margin}) = {got}, the header says {expect}; header S {} N {} W {} E {} dlat {} dlon {} ({} x {} nodes)",
                        spec.lat_s.0, spec.lat_n.0, spec.lon_w.0, spec.lon_e.0, spec.dlat.0, spec.dlon.0, spec.rows, spec.cols),
                );
            }
        }
    }
    // node values through `at`; boundary nodes are nudged inwards by 1e-6 cell so that
    // rounding of the node coordinate cannot put them outside
    let nudge = 1.0e-6;
    for r in 0..m.rows {
        for c in 0..m.cols {
            let fr = r as f64 + if r == 0 { nudge } else if r == m.rows - 1 { -nudge } else { 0.0 };
            let fc = c as f64 + if c == 0 { nudge } else if c == m.cols - 1 { -nudge } else { 0.0 };
            let lon = m.w + fc * m.dlon;
            let lat = m.n - fr * m.dlat;
            let q = Coor4D([lon, lat, 0., 0.]);
            let got = match guard(|| grid.at(&q, 0.0)) {
                Err(p) => return km(format!("panic-query-wellformed@{}", psig(&p)), format!("at({q:?}, 0) panics on a well-formed grid: {} at {}:{}", p.msg, p.file, p.line)),
                Ok(g) => g,
            };
            let Some(got) = got else {
                return km("gravsoft-node-missing", format!("node (row {r} from north, col {c} from west) at {q:?} is inside the grid but at(.., 0) = None"));
            };
            let bad = if sharp {
                let (exp, tol) = m.bilinear_sharp(lon, lat, VALUE_RTOL, VALUE_FLOOR_SHARP);
                cmp_sharp(&got, &exp, &tol, m.bands, &mut st.worst_rel)
            } else {
                let (exp, scale) = m.bilinear(lon, lat);
                cmp_value(&got, &exp, scale, m.bands, &mut st.worst_rel)
            };
            if let Some(d) = bad {
                let k = (r * m.cols + c) * m.bands;
                return km(
                    "gravsoft-node-value",
                    format!("node (row {r} from north, col {c} from west), file values {:?}, {} band(s), {} units: {d}",
                        spec.values[k..k + m.bands].iter().map(|x| x.0).collect::<Vec<_>>(), m.bands, if spec.angular() { "angular" } else { "linear" }),
                );
            }
            st.nodes_checked += 1;
        }
    }
    Ok(st)
}

// =====================================================================================
// NTv2: specification, encoder, .gsa reader, binary walker/reader, decode oracle
// =====================================================================================

#[derive(Clone, Debug, Serialize, Deserialize, PartialEq)]
struct NtSub {
    name: String,
    parent: String,
    created: String,
    updated: String,
    s_lat: F,
    n_lat: F,
    e_long: F, // arc seconds, positive WEST
    w_long: F,
    lat_inc: F,
    long_inc: F,
    /// file order: south-east node first, westwards along the row, rows northwards;
    /// (lat shift, lon shift positive west, lat accuracy, lon accuracy), f32 each
    nodes: Vec<[F; 4]>,
}

#[derive(Clone, Debug, Serialize, Deserialize, PartialEq)]
struct NtSpec {
    big_endian: bool,
    gs_type: String,
    version: String,
    system_f: String,
    system_t: String,
    major_f: F,
    minor_f: F,
    major_t: F,
    minor_t: F,
    subs: Vec<NtSub>, // file order
    end_record: bool,
    pad: u8, // 0: zero padding after the integer fields, else pseudo-random garbage
}

const NT_HDR: usize = 176;

fn pad8(s: &str) -> [u8; 8] {
    let mut o = [b' '; 8];
    for (i, b) in s.bytes().take(8).enumerate() {
        o[i] = b;
    }
    o
}

struct NtWriter {
    out: Vec<u8>,
    be: bool,
    pad: u8,
}
impl NtWriter {
    fn label(&mut self, l: &str) {
        self.out.extend_from_slice(&pad8(l));
    }
    fn int(&mut self, l: &str, v: u32) {
        self.label(l);
        self.out.extend_from_slice(&if self.be { v.to_be_bytes() } else { v.to_le_bytes() });
        for i in 0..4u8 {
            let b = if self.pad == 0 { 0 } else { self.pad.wrapping_mul(37).wrapping_add(i.wrapping_mul(101)).wrapping_add(self.out.len() as u8) };
            self.out.push(b);
        }
    }
    fn text(&mut self, l: &str, v: &str) {
        self.label(l);
        self.out.extend_from_slice(&pad8(v));
    }
    fn dbl(&mut self, l: &str, v: f64) {
        self.label(l);
        self.out.extend_from_slice(&if self.be { v.to_be_bytes() } else { v.to_le_bytes() });
    }
    fn f32(&mut self, v: f32) {
        self.out.extend_from_slice(&if self.be { v.to_be_bytes() } else { v.to_le_bytes() });
    }
}

fn nt_encode(spec: &NtSpec) -> Vec<u8> {
    let mut w = NtWriter { out: vec![], be: spec.big_endian, pad: spec.pad };
    w.int("NUM_OREC", 11);
    w.int("NUM_SREC", 11);
    w.int("NUM_FILE", spec.subs.len() as u32);
    w.text("GS_TYPE", &spec.gs_type);
    w.text("VERSION", &spec.version);
    w.text("SYSTEM_F", &spec.system_f);
    w.text("SYSTEM_T", &spec.system_t);
    w.dbl("MAJOR_F", spec.major_f.0);
    w.dbl("MINOR_F", spec.minor_f.0);
    w.dbl("MAJOR_T", spec.major_t.0);
    w.dbl("MINOR_T", spec.minor_t.0);
    for s in &spec.subs {
        w.text("SUB_NAME", &s.name);
        w.text("PARENT", &s.parent);
        w.text("CREATED", &s.created);
        w.text("UPDATED", &s.updated);
        w.dbl("S_LAT", s.s_lat.0);
        w.dbl("N_LAT", s.n_lat.0);
        w.dbl("E_LONG", s.e_long.0);
        w.dbl("W_LONG", s.w_long.0);
        w.dbl("LAT_INC", s.lat_inc.0);
        w.dbl("LONG_INC", s.long_inc.0);
        w.int("GS_COUNT", s.nodes.len() as u32);
        for n in &s.nodes {
            for k in 0..4 {
                w.f32(n[k].0 as f32);
            }
        }
    }
    if spec.end_record {
        w.label("END");
        w.out.extend_from_slice(&[0u8; 8]);
    }
    w.out
}

/// Reader for the ASCII rendering (.gsa) of an NTv2 file.
fn gsa_read(text: &str) -> Result<NtSpec, String> {
    let mut spec = NtSpec {
        big_endian: false,
        gs_type: String::new(),
        version: String::new(),
        system_f: String::new(),
        system_t: String::new(),
        major_f: F(0.),
        minor_f: F(0.),
        major_t: F(0.),
        minor_t: F(0.),
        subs: vec![],
        end_record: false,
        pad: 0,
    };
    let mut lines = text.lines().map(|l| l.trim()).filter(|l| !l.is_empty());
    let num = |v: &str| v.trim().parse::<f64>().map_err(|e| format!("'{v}': {e}"));
    let mut num_file = None;
    while let Some(l) = lines.next() {
        let (key, val) = match l.split_once(char::is_whitespace) {
            Some((k, v)) => (k, v.trim()),
            None => (l, ""),
        };
        match key {
            "NUM_OREC" | "NUM_SREC" => {
                if num(val)? != 11.0 {
                    return Err(format!("{key} is {val}"));
                }
            }
            "NUM_FILE" => num_file = Some(num(val)? as usize),
            "GS_TYPE" => spec.gs_type = val.into(),
            "VERSION" => spec.version = val.into(),
            "SYSTEM_F" => spec.system_f = val.into(),
            "SYSTEM_T" => spec.system_t = val.into(),
            "MAJOR_F" => spec.major_f = F(num(val)?),
            "MINOR_F" => spec.minor_f = F(num(val)?),
            "MAJOR_T" => spec.major_t = F(num(val)?),
            "MINOR_T" => spec.minor_t = F(num(val)?),
            "SUB_NAME" => spec.subs.push(NtSub {
                name: val.into(),
                parent: String::new(),
                created: String::new(),
                updated: String::new(),
                s_lat: F(0.),
                n_lat: F(0.),
                e_long: F(0.),
                w_long: F(0.),
                lat_inc: F(0.),
                long_inc: F(0.),
                nodes: vec![],
            }),
            "END" => {
                spec.end_record = true;
                break;
            }
            _ => {
                let s = spec.subs.last_mut().ok_or_else(|| format!("unexpected line '{l}'"))?;
                match key {
                    "PARENT" => s.parent = val.into(),
                    "CREATED" => s.created = val.into(),
                    "UPDATED" => s.updated = val.into(),
                    "S_LAT" => s.s_lat = F(num(val)?),
                    "N_LAT" => s.n_lat = F(num(val)?),
                    "E_LONG" => s.e_long = F(num(val)?),
                    "W_LONG" => s.w_long = F(num(val)?),
                    "LAT_INC" => s.lat_inc = F(num(val)?),
                    "LONG_INC" => s.long_inc = F(num(val)?),
                    "GS_COUNT" => {
                        let n = num(val)? as usize;
                        for _ in 0..n {
                            let nl = lines.next().ok_or("node records end early")?;
                            let v: Vec<f64> = nl.split_whitespace().map(num).collect::<Result<_, _>>()?;
                            if v.len() != 4 {
                                return Err(format!("node line '{nl}'"));
                            }
                            s.nodes.push([F(v[0] as f32 as f64), F(v[1] as f32 as f64), F(v[2] as f32 as f64), F(v[3] as f32 as f64)]);
                        }
                    }
                    _ => return Err(format!("unknown key in '{l}'")),
                }
            }
        }
    }
    if num_file != Some(spec.subs.len()) {
        return Err(format!("NUM_FILE {num_file:?} but {} sub-grids", spec.subs.len()));
    }
    Ok(spec)
}

/// One sub-grid header as found in a (possibly damaged) binary file; everything bounds-checked.
#[derive(Clone, Debug)]
struct NtHdr {
    off: usize,
    name: String,
    parent: String,
    s_lat: f64,
    n_lat: f64,
    e_long: f64,
    w_long: f64,
    lat_inc: f64,
    long_inc: f64,
    count: u32,
}

fn rd<const N: usize>(b: &[u8], off: usize) -> Option<[u8; N]> {
    b.get(off..off.checked_add(N)?)?.try_into().ok()
}
fn nt_be(b: &[u8]) -> bool {
    b.get(8).map(|x| *x != 11).unwrap_or(false)
}
fn rd_f64(b: &[u8], off: usize, be: bool) -> Option<f64> {
    rd::<8>(b, off).map(|x| if be { f64::from_be_bytes(x) } else { f64::from_le_bytes(x) })
}
fn rd_u32(b: &[u8], off: usize, be: bool) -> Option<u32> {
    rd::<4>(b, off).map(|x| if be { u32::from_be_bytes(x) } else { u32::from_le_bytes(x) })
}
fn rd_f32(b: &[u8], off: usize, be: bool) -> Option<f32> {
    rd::<4>(b, off).map(|x| if be { f32::from_be_bytes(x) } else { f32::from_le_bytes(x) })
}
fn rd_name(b: &[u8], off: usize) -> Option<String> {
    rd::<8>(b, off).map(|x| String::from_utf8_lossy(&x).trim().to_string())
}

/// Walk the sub-grid headers the way the format lays them out (header, then GS_COUNT node
/// records of 16 bytes); stops at the first header that does not fit. At most `max` headers.
fn nt_walk(b: &[u8], max: usize) -> Vec<NtHdr> {
    let be = nt_be(b);
    let n = rd_u32(b, 40, be).unwrap_or(0) as usize;
    let mut out = vec![];
    let mut off = NT_HDR;
    for _ in 0..n.min(max) {
        let (Some(name), Some(parent), Some(count)) = (rd_name(b, off + 8), rd_name(b, off + 24), rd_u32(b, off + 168, be)) else { break };
        let g = |o: usize| rd_f64(b, off + o, be).unwrap_or(f64::NAN);
        out.push(NtHdr { off, name, parent, s_lat: g(72), n_lat: g(88), e_long: g(104), w_long: g(120), lat_inc: g(136), long_inc: g(152), count });
        off = match off.checked_add(NT_HDR + count as usize * 16) {
            Some(o) => o,
            None => break,
        };
    }
    out
}

/// Independent strict reader of a well-formed binary file (used for the shipped .gsb files).
fn nt_reference_read(b: &[u8]) -> Result<NtSpec, String> {
    let be = nt_be(b);
    let txt = |off: usize| rd_name(b, off).ok_or("short file");
    let dbl = |off: usize| rd_f64(b, off, be).ok_or("short file");
    if rd::<8>(b, 0) != Some(*b"NUM_OREC") || rd_u32(b, 8, be) != Some(11) || rd_u32(b, 24, be) != Some(11) {
        return Err("not an NTv2 file".into());
    }
    let nsub = rd_u32(b, 40, be).ok_or("short file")? as usize;
    let hdrs = nt_walk(b, 1 << 20);
    if hdrs.len() != nsub {
        return Err(format!("NUM_FILE {nsub} but {} headers fit", hdrs.len()));
    }
    let mut subs = vec![];
    for h in &hdrs {
        let mut nodes = vec![];
        for i in 0..h.count as usize {
            let o = h.off + NT_HDR + 16 * i;
            let g = |k: usize| rd_f32(b, o + 4 * k, be).map(|v| F(v as f64)).ok_or("short file");
            nodes.push([g(0)?, g(1)?, g(2)?, g(3)?]);
        }
        subs.push(NtSub {
            name: h.name.clone(),
            parent: h.parent.clone(),
            created: txt(h.off + 40)?,
            updated: txt(h.off + 56)?,
            s_lat: F(h.s_lat),
            n_lat: F(h.n_lat),
            e_long: F(h.e_long),
            w_long: F(h.w_long),
            lat_inc: F(h.lat_inc),
            long_inc: F(h.long_inc),
            nodes,
        });
    }
    let end = hdrs.last().map(|h| h.off + NT_HDR + 16 * h.count as usize).unwrap_or(NT_HDR);
    Ok(NtSpec {
        big_endian: be,
        gs_type: txt(56)?,
        version: txt(72)?,
        system_f: txt(88)?,
        system_t: txt(104)?,
        major_f: F(dbl(120)?),
        minor_f: F(dbl(136)?),
        major_t: F(dbl(152)?),
        minor_t: F(dbl(168)?),
        subs,
        end_record: rd::<3>(b, end) == Some(*b"END"),
        pad: 0,
    })
}

/// Documented conventions: extents in arc seconds, longitudes positive west; node records
/// (lat shift, lon shift positive west) arc seconds, first record = south-east corner, running
/// west then north. `at` delivers (lon shift east, lat shift) in radians.
fn nt_models(spec: &NtSpec) -> Result<Vec<SubModel>, String> {
    let mut out = vec![];
    for s in &spec.subs {
        let fr = (s.n_lat.0 - s.s_lat.0) / s.lat_inc.0;
        let fc = (s.w_long.0 - s.e_long.0) / s.long_inc.0;
        if !(fr > 0.5 && fc > 0.5 && (fr - fr.round()).abs() < 1e-9 && (fc - fc.round()).abs() < 1e-9) {
            return Err(format!("sub-grid {}: extent is not a whole number of cells ({fr} x {fc})", s.name));
        }
        let rows = fr.round() as usize + 1;
        let cols = fc.round() as usize + 1;
        if rows * cols != s.nodes.len() {
            return Err(format!("sub-grid {}: {} nodes for {rows} x {cols}", s.name, s.nodes.len()));
        }
        let mut vals = vec![0.0; rows * cols * 2];
        for r in 0..rows {
            for c in 0..cols {
                let k = (rows - 1 - r) * cols + (cols - 1 - c);
                vals[(r * cols + c) * 2] = sec2rad(-s.nodes[k][1].0);
                vals[(r * cols + c) * 2 + 1] = sec2rad(s.nodes[k][0].0);
            }
        }
        out.push(SubModel {
            name: s.name.trim().to_string(),
            parent: s.parent.trim().to_string(),
            n: sec2rad(s.n_lat.0),
            s: sec2rad(s.s_lat.0),
            w: -sec2rad(s.w_long.0),
            e: -sec2rad(s.e_long.0),
            dlat: sec2rad(s.lat_inc.0),
            dlon: sec2rad(s.long_inc.0),
            rows,
            cols,
            bands: 2,
            vals,
        });
    }
    Ok(out)
}

/// The sub-grid that unambiguously serves `(lon, lat)` according to the NTv2 rules the
/// library documents (finest sub-grid; a point on a sub-grid's northern or eastern edge
/// belongs to the parent; on the outer edge of a root it belongs to the root). `None` when
/// the point is outside, or so close to a decision boundary (1e-6 rad zone around north/east
/// edges, rounding of south/west edges) that the answer is not clear-cut: such points are skipped.
fn nt_clear_owner(ms: &[SubModel], lon: f64, lat: f64) -> Option<usize> {
    #[derive(PartialEq)]
    enum Cl {
        In,
        Out,
        Unclear,
    }
    let classify = |h: &SubModel| -> Cl {
        let inn = lat >= h.s - 1e-12 && lat <= h.n - 2e-6 && lon >= h.w - 1e-12 && lon <= h.e - 2e-6;
        if inn {
            return Cl::In;
        }
        let out = lat < h.s - 1e-9 || lat > h.n + 1e-9 || lon < h.w - 1e-9 || lon > h.e + 1e-9 || (lat - h.n).abs() < 0.5e-6 || (lon - h.e).abs() < 0.5e-6;
        if out {
            Cl::Out
        } else {
            Cl::Unclear
        }
    };
    let mut cur: Option<usize> = None;
    let mut level = "NONE".to_string();
    loop {
        let cands: Vec<usize> = (0..ms.len()).filter(|i| ms[*i].parent == level).collect();
        let mut inn = vec![];
        for i in cands {
            match classify(&ms[i]) {
                Cl::In => inn.push(i),
                Cl::Out => {}
                Cl::Unclear => return None,
            }
        }
        match inn.len() {
            0 => break,
            1 => {
                cur = Some(inn[0]);
                level = ms[inn[0]].name.clone();
            }
            _ => return None,
        }
    }
    if cur.is_some() {
        return cur;
    }
    // not selected by descent: the outer northern/eastern edge of exactly one root
    let roots: Vec<usize> = (0..ms.len()).filter(|i| ms[*i].parent == "NONE").collect();
    let loose: Vec<usize> = roots
        .iter()
        .cloned()
        .filter(|i| {
            let h = &ms[*i];
            lat >= h.s - 1e-12 && lat <= h.n + 1e-12 && lon >= h.w - 1e-12 && lon <= h.e + 1e-12
        })
        .collect();
    if loose.len() == 1 {
        let far = roots.iter().filter(|i| **i != loose[0]).all(|i| {
            let h = &ms[*i];
            lat < h.s - h.dlat || lat > h.n + h.dlat || lon < h.w - h.dlon || lon > h.e + h.dlon
        });
        if far {
            return Some(loose[0]);
        }
    }
    None
}

/// decode(bytes) must be the grid `spec` describes (`sharp` as in `check_grav_decode`).
fn check_nt_decode(bytes: &[u8], spec: &NtSpec, sharp: bool) -> Result<WfStats, KM> {
    let mut st = WfStats { nodes_checked: 0, probes: 0, skipped_ambiguous: 0, worst_rel: 0.0 };
    let ms = match nt_models(spec) {
        Ok(m) => m,
        Err(e) => return km("harness-bad-spec", e),
    };
    let grid = match guard(|| Ntv2Grid::new(bytes)) {
        Err(p) => return km(format!("panic-decode@{}", psig(&p)), format!("Ntv2Grid::new panics on a well-formed file: {} at {}:{}", p.msg, p.file, p.line)),
        Ok(Err(e)) => return km("wellformed-ntv2-rejected", format!("well-formed NTv2 file rejected: {e:?}")),
        Ok(Ok(g)) => g,
    };
    if grid.bands() != 2 {
        return km("ntv2-band-count", format!("bands() = {}", grid.bands()));
    }
    let roots: Vec<&SubModel> = ms.iter().filter(|m| m.parent == "NONE").collect();
    // outer geometry through `contains`
    for m in &roots {
        let midlat = m.s + 0.37 * (m.n - m.s);
        let midlon = m.w + 0.41 * (m.e - m.w);
        for (side, base, cell, sign, is_lat) in [
            ("north", m.n, m.dlat, 1.0, true),
            ("south", m.s, m.dlat, -1.0, true),
            ("east", m.e, m.dlon, 1.0, false),
            ("west", m.w, m.dlon, -1.0, false),
        ] {
            for (off, margin) in [(-0.01, 0.0), (0.01, 0.0), (0.49, 0.5), (0.51, 0.5), (-0.01, 0.5)] {
                let v = base + sign * off * cell;
                let (lon, lat) = if is_lat { (midlon, v) } else { (v, midlat) };
                // model: inside some root's box widened by max(margin, 1e-6) cells; skip if any
                // root's decision is closer than 1e-4 cell
                let mut expect = false;
                let mut clear = true;
                for h in &roots {
                    let mg: f64 = margin;
                    let mm = mg.max(1e-6);
                    let ds = [(lat - (h.s - mm * h.dlat)) / h.dlat, ((h.n + mm * h.dlat) - lat) / h.dlat, (lon - (h.w - mm * h.dlon)) / h.dlon, ((h.e + mm * h.dlon) - lon) / h.dlon];
                    if ds.iter().any(|d| d.abs() < 1e-4) {
                        clear = false;
                    }
                    if ds.iter().all(|d| *d > 0.0) {
                        expect = true;
                    }
                }
                if !clear {
                    st.skipped_ambiguous += 1;
                    continue;
                }
                let c = Coor4D([lon, lat, 0., 0.]);
                let got = match guard(|| grid.contains(&c, margin)) {
                    Err(p) => return km(format!("panic-query-wellformed@{}", psig(&p)), format!("contains({c:?}, {margin}) panics on a well-formed grid: {} at {}:{}", p.msg, p.file, p.line)),
                    Ok(g) => g,
                };
                st.probes += 1;
                if got != expect {
                    return km(
                        "ntv2-geometry",
                        format!("root sub-grid '{}', {side} edge: a point {off} cells beyond the boundary ({c:?}) gives contains(margin {margin}) = {got}, the header says {expect} (box in radians S {} N {} W {} E {})", m.name, m.s, m.n, m.w, m.e),
                    );
                }
            }
        }
    }
    // node values and boundary-straddling probes through `at`
    for (gi, m) in ms.iter().enumerate() {
        let mut pts: Vec<(f64, f64, bool)> = vec![]; // (lon, lat, is_node)
        for r in 0..m.rows {
            for c in 0..m.cols {
                let (lon, lat) = m.node(r, c);
                pts.push((lon, lat, true));
            }
        }
        let (midlat, midlon) = (m.s + 0.37 * (m.n - m.s), m.w + 0.41 * (m.e - m.w));
        for o in [-0.05, 0.05] {
            pts.push((midlon, m.n + o * m.dlat, false));
            pts.push((midlon, m.s - o * m.dlat, false));
            pts.push((m.e + o * m.dlon, midlat, false));
            pts.push((m.w - o * m.dlon, midlat, false));
        }
        for (lon, lat, is_node) in pts {
            let Some(owner) = nt_clear_owner(&ms, lon, lat) else {
                st.skipped_ambiguous += 1;
                continue;
            };
            if is_node && owner != gi {
                // served by a finer child: the child's own turn checks its values
                st.skipped_ambiguous += 1;
                continue;
            }
            let h = &ms[owner];
            let (exp, scale) = h.bilinear(lon, lat);
            let (exp_s, tol_s) = if sharp { h.bilinear_sharp(lon, lat, VALUE_RTOL, VALUE_FLOOR_SHARP) } else { ([0.0; 4], [0.0; 4]) };
            let q = Coor4D([lon, lat, 0., 0.]);
            let deep = lat >= h.s + 1e-9 && lon >= h.w + 1e-9 && lat <= h.n - 2e-6 && lon <= h.e - 2e-6;
            for margin in [1e-6, 0.5, 0.0] {
                if margin == 0.0 && !deep {
                    continue;
                }
                let got = match guard(|| grid.at(&q, margin)) {
                    Err(p) => return km(format!("panic-query-wellformed@{}", psig(&p)), format!("at({q:?}, {margin}) panics on a well-formed grid: {} at {}:{}", p.msg, p.file, p.line)),
                    Ok(g) => g,
                };
                let Some(got) = got else {
                    return km("ntv2-node-missing", format!("point {q:?} ({}) lies in sub-grid '{}' but at(.., {margin}) = None", if is_node { "a node" } else { "edge probe" }, h.name));
                };
                let bad = if sharp { cmp_sharp(&got, &exp_s, &tol_s, 2, &mut st.worst_rel) } else { cmp_value(&got, &exp, scale, 2, &mut st.worst_rel) };
                if let Some(d) = bad {
                    return km(
                        "ntv2-node-value",
                        format!("{} {q:?} of sub-grid '{}' (served by '{}', {} x {} nodes, {} byte order), margin {margin}: {d}; expected (lon shift east, lat shift) rad = ({:?}, {:?})",
                            if is_node { "node" } else { "edge probe near" }, m.name, h.name, h.rows, h.cols, if spec.big_endian { "big endian" } else { "little endian" }, exp[0], exp[1]),
                    );
                }
            }
            if is_node {
                st.nodes_checked += 1;
            } else {
                st.probes += 1;
            }
        }
    }
    Ok(st)
}

// =====================================================================================
// The byte-level oracle for arbitrary (damaged) input
// =====================================================================================

/// Key of the one hang class that is detected without blocking a worker (see `nt_name_cycle`).
const HANG_KEY: &str = "hang-ntv2-find_grid-name-cycle";
/// How many times a query on a file with a reachable sub-grid name cycle may still be executed
/// (each execution that hangs leaves a spinning helper thread behind until the process ends).
static HANG_BUDGET: AtomicI64 = AtomicI64::new(3);

#[derive(Default, Debug, Clone)]
pub struct FaultStats {
    pub decoded: bool,
    pub contained: usize,
    pub interpolated: usize,
    pub queries: usize,
    pub skipped_cycle: bool,
    pub peak_alloc: usize,
}

fn special_queries() -> Vec<[f64; 4]> {
    let nan = f64::NAN;
    let inf = f64::INFINITY;
    vec![
        [nan, nan, nan, nan],
        [nan, 0.9, 0., 0.],
        [0.2, nan, 0., 0.],
        [inf, 0.9, 0., 0.],
        [0.2, -inf, 0., 0.],
        [-inf, inf, 0., 0.],
        [0., 0., 0., 0.],
        [-0., -0., 0., 0.],
        [1e300, 1e300, 0., 0.],
        [-1e300, 1e-300, 0., 0.],
        [f64::MAX, f64::MIN, 0., 0.],
        [f64::MIN_POSITIVE / 4., -f64::MIN_POSITIVE / 4., 0., 0.],
        [0.2094, 0.9774, 0., 0.],   // 12 E 56 N
        [0.0378, 0.7223, 100., 2020.], // Barcelona
        [std::f64::consts::PI, std::f64::consts::FRAC_PI_2, 0., 0.],
        [-std::f64::consts::PI, -std::f64::consts::FRAC_PI_2, 0., 0.],
        [12., 56., 0., 0.],
        [500000., 6200000., 0., 0.],
    ]
}

fn box_queries(out: &mut Vec<[f64; 4]>, s: f64, n: f64, w: f64, e: f64, dlat: f64, dlon: f64) {
    let (ml, mo) = (s + 0.5 * (n - s), w + 0.5 * (e - w));
    let (dl, dn) = (dlat.abs(), dlon.abs());
    out.push([mo, ml, 0., 0.]);
    out.push([w + 0.3 * dn, n - 0.3 * dl, 0., 0.]);
    out.push([e - 0.3 * dn, s + 0.3 * dl, 0., 0.]);
    for (lo, la) in [(w, s), (w, n), (e, s), (e, n), (mo, s), (mo, n), (w, ml), (e, ml)] {
        out.push([lo, la, 0., 0.]);
    }
    out.push([mo, n + 0.25 * dl, 0., 0.]);
    out.push([mo, s - 0.25 * dl, 0., 0.]);
    out.push([e + 0.25 * dn, ml, 0., 0.]);
    out.push([w - 0.25 * dn, ml, 0., 0.]);
    out.push([e + 0.75 * dn, n + 0.75 * dl, 0., 0.]);
    out.push([w - 3. * dn, s - 3. * dl, 0., 0.]);
}

/// Query points derived from what the (possibly damaged) file itself claims to cover, so that
/// `at` really interpolates in damaged grids instead of returning `None` at the first test.
pub fn adaptive_queries(kind_is_ntv2: bool, bytes: &[u8]) -> Vec<[f64; 4]> {
    let mut out = vec![];
    if kind_is_ntv2 {
        for h in nt_walk(bytes, 12) {
            box_queries(&mut out, sec2rad(h.s_lat), sec2rad(h.n_lat), -sec2rad(h.w_long), -sec2rad(h.e_long), sec2rad(h.lat_inc), sec2rad(h.long_inc));
        }
    } else {
        let toks = grav_tokens(&bytes[..bytes.len().min(4096)]);
        if toks.len() >= 6 {
            let h: Vec<f64> = toks[..6].iter().map(|(a, b)| std::str::from_utf8(&bytes[*a..*b]).ok().and_then(|s| s.parse::<f64>().ok()).unwrap_or(f64::NAN)).collect();
            let ang = h[..4].iter().all(|v| v.abs() <= 720.);
            let u = |v: f64| if ang { v.to_radians() } else { v };
            box_queries(&mut out, u(h[0]), u(h[1]), u(h[2]), u(h[3]), u(h[4]), u(h[5]));
        }
    }
    out
}

/// Does the parent -> children name graph of the file, as `find_grid` walks it from "NONE",
/// contain a cycle? (Possible only with duplicate names or a sub-grid called NONE.)
fn nt_name_cycle(bytes: &[u8]) -> bool {
    let hdrs = nt_walk(bytes, 4096);
    let mut children: BTreeMap<&str, Vec<&str>> = BTreeMap::new();
    for h in &hdrs {
        children.entry(h.parent.as_str()).or_default().push(h.name.as_str());
    }
    // iterative DFS with colours
    fn visit<'a>(n: &'a str, ch: &BTreeMap<&'a str, Vec<&'a str>>, on_path: &mut BTreeSet<&'a str>, done: &mut BTreeSet<&'a str>, depth: usize) -> bool {
        if on_path.contains(n) {
            return true;
        }
        if done.contains(n) || depth > 5000 {
            return false;
        }
        on_path.insert(n);
        if let Some(cs) = ch.get(n) {
            for c in cs {
                if visit(c, ch, on_path, done, depth + 1) {
                    return true;
                }
            }
        }
        on_path.remove(n);
        done.insert(n);
        false
    }
    visit("NONE", &children, &mut BTreeSet::new(), &mut BTreeSet::new(), 0)
}

fn run_queries(grid: &dyn Grid, qs: &[[f64; 4]], limit: usize, st: &mut FaultStats) -> Result<(), KM> {
    let stage = std::cell::Cell::new((0usize, 0.0f64, "contains"));
    let counts = std::cell::Cell::new((0usize, 0usize, 0usize));
    alloc_track::start();
    let r = guard(|| {
        for margin in [0.0, 0.5] {
            for (i, q) in qs.iter().enumerate() {
                let c = Coor4D(*q);
                stage.set((i, margin, "contains"));
                let inside = grid.contains(&c, margin);
                stage.set((i, margin, "at"));
                let v = grid.at(&c, margin);
                let (a, b, n) = counts.get();
                counts.set((a + inside as usize, b + v.is_some() as usize, n + 1));
            }
        }
        let _ = grid.bands();
    });
    let (peak, largest) = alloc_track::stop();
    let (a, b, n) = counts.get();
    st.contained += a;
    st.interpolated += b;
    st.queries += n;
    st.peak_alloc = st.peak_alloc.max(peak);
    if let Err(p) = r {
        let (i, margin, what) = stage.get();
        return km(
            format!("panic-query@{}", psig(&p)),
            format!("{what}({:?}, margin {margin}) on the decoded grid panics: {} at {}:{}", qs[i], p.msg, p.file, p.line),
        );
    }
    if peak > limit || largest > limit {
        return km("alloc-unbounded-query", format!("queries allocated peak {peak} bytes (largest single request {largest}), limit {limit}"));
    }
    Ok(())
}

pub fn check_grid_bytes_stats(kind_is_ntv2: bool, bytes: &[u8], queries: &[[f64; 4]]) -> Result<FaultStats, KM> {
    let mut st = FaultStats::default();
    let limit = 64 * bytes.len() + (1 << 20);
    let what = if kind_is_ntv2 { "Ntv2Grid::new" } else { "BaseGrid::gravsoft" };
    let describe = || format!("input: {} bytes, head {}", bytes.len(), hex_head(bytes, 48));

    alloc_track::start();
    let r = guard(|| -> Result<Arc<dyn Grid>, geodesy::Error> {
        if kind_is_ntv2 {
            Ok(Arc::new(Ntv2Grid::new(bytes)?))
        } else {
            Ok(Arc::new(BaseGrid::gravsoft(bytes)?))
        }
    });
    let (peak, largest) = alloc_track::stop();
    st.peak_alloc = peak;
    // the allocation bound is checked first: it also holds for a decode that ends in a panic
    if peak > limit || largest > limit {
        let how = match &r {
            Err(p) => format!(" (and then panicked: {} at {}:{})", p.msg, p.file, p.line),
            Ok(_) => String::new(),
        };
        return km("alloc-unbounded-decode", format!("{what} allocated peak {peak} bytes (largest single request {largest}) for an input of {} bytes{how}; limit 64 x input + 1 MB = {limit}\n{}", bytes.len(), describe()));
    }
    let grid = match r {
        Err(p) => return km(format!("panic-decode@{}", psig(&p)), format!("{what} panics: {} at {}:{}\n{}", p.msg, p.file, p.line, describe())),
        Ok(g) => g,
    };
    let grid = match grid {
        Err(e) => {
            // an error value must be printable
            let _ = guard(|| format!("{e:?} {e}"));
            return Ok(st);
        }
        Ok(g) => g,
    };
    st.decoded = true;
    let mut qs: Vec<[f64; 4]> = queries.to_vec();
    qs.extend(adaptive_queries(kind_is_ntv2, bytes));
    qs.extend(special_queries());

    if kind_is_ntv2 && nt_name_cycle(bytes) {
        // find_grid may loop forever: run in a helper thread that can be abandoned
        if HANG_BUDGET.fetch_sub(1, Ordering::SeqCst) <= 0 {
            st.skipped_cycle = true;
            return Ok(st);
        }
        let (tx, rx) = std::sync::mpsc::channel();
        let g2 = grid.clone();
        let q2 = qs.clone();
        std::thread::Builder::new()
            .name("cycle-query".into())
            .spawn(move || {
                let mut s = FaultStats::default();
                let r = run_queries(&*g2, &q2, limit, &mut s);
                let _ = tx.send((r, s));
            })
            .expect("spawn");
        return match rx.recv_timeout(Duration::from_secs(10)) {
            Ok((r, s)) => {
                HANG_BUDGET.fetch_add(1, Ordering::SeqCst);
                st.contained = s.contained;
                st.interpolated = s.interpolated;
                st.queries = s.queries;
                r.map(|_| st).map_err(|(k, m)| (k, format!("{m}\n{}", describe())))
            }
            Err(_) => {
                let hd: Vec<String> = nt_walk(bytes, 16).iter().map(|h| format!("'{}' (parent '{}')", h.name, h.parent)).collect();
                km(
                    HANG_KEY,
                    format!("contains/at on the decoded NTv2 grid did not return within 10 s (normal: microseconds): the sub-grid names form a cycle reachable from NONE, find_grid re-queues the same id for ever. sub-grids in file order: {}\n{}", hd.join(", "), describe()),
                )
            }
        };
    }
    run_queries(&*grid, &qs, limit, &mut st).map_err(|(k, m)| (k, format!("{m}\n{}", describe())))?;
    Ok(st)
}

/// The oracle for arbitrary bytes: `Err` or a safely queryable grid; no panic, no hang,
/// no allocation beyond 64 x input + 1 MB. Returns (key, message) on violation.
pub fn check_grid_bytes(kind_is_ntv2: bool, bytes: &[u8], queries: &[[f64; 4]]) -> Result<(), (String, String)> {
    check_grid_bytes_stats(kind_is_ntv2, bytes, queries).map(|_| ())
}

// =====================================================================================
// Faults
// =====================================================================================

#[derive(Clone, Debug, Serialize, Deserialize, PartialEq)]
enum Fault {
    Truncate(usize),
    BitFlip { byte: usize, bit: u8 },
    Overwrite { at: usize, data: Hex },
    Copy { from: usize, to: usize, len: usize },
    Delete { at: usize, len: usize },
    Insert { at: usize, data: Hex },
    /// Gravsoft: replace the idx-th token (outside comments) by `text`
    TokenReplace { idx: usize, text: String },
    TokenDelete { idx: usize },
    /// Gravsoft: append extra tokens
    Append(String),
}

fn apply_fault(b: &mut Vec<u8>, f: &Fault) {
    match f {
        Fault::Truncate(n) => b.truncate(*n),
        Fault::BitFlip { byte, bit } => {
            if let Some(x) = b.get_mut(*byte) {
                *x ^= 1 << (bit % 8);
            }
        }
        Fault::Overwrite { at, data } => {
            for (i, d) in data.0.iter().enumerate() {
                if let Some(x) = b.get_mut(at + i) {
                    *x = *d;
                }
            }
        }
        Fault::Copy { from, to, len } => {
            let src: Vec<u8> = b.iter().skip(*from).take(*len).cloned().collect();
            for (i, d) in src.iter().enumerate() {
                if let Some(x) = b.get_mut(to + i) {
                    *x = *d;
                }
            }
        }
        Fault::Delete { at, len } => {
            let a = (*at).min(b.len());
            let e = a.saturating_add(*len).min(b.len());
            b.drain(a..e);
        }
        Fault::Insert { at, data } => {
            let a = (*at).min(b.len());
            let tail = b.split_off(a);
            b.extend_from_slice(&data.0);
            b.extend(tail);
        }
        Fault::TokenReplace { idx, text } => {
            let t = grav_tokens(b);
            if let Some((s, e)) = t.get(*idx) {
                let tail = b.split_off(*e);
                b.truncate(*s);
                b.extend_from_slice(text.as_bytes());
                b.extend(tail);
            }
        }
        Fault::TokenDelete { idx } => {
            let t = grav_tokens(b);
            if let Some((s, e)) = t.get(*idx) {
                b.drain(*s..*e);
            }
        }
        Fault::Append(s) => {
            b.extend_from_slice(b"\n");
            b.extend_from_slice(s.as_bytes());
        }
    }
}

/// Where the bytes of a fault case come from.
#[derive(Clone, Debug, Serialize, Deserialize)]
enum Src {
    /// path below the repository root, e.g. "geodesy/gsb/5458.gsb"
    Shipped(String),
    Inline(Hex),
}

static SHIPPED: OnceLock<BTreeMap<String, Arc<Vec<u8>>>> = OnceLock::new();

const SHIPPED_FILES: [&str; 9] = [
    "geodesy/gsb/5458.gsb",
    "geodesy/gsb/5458_with_subgrid.gsb",
    "geodesy/gsb/100800401.gsb",
    "geodesy/datum/test.datum",
    "geodesy/datum/test_subset.datum",
    "geodesy/geoid/test.geoid",
    "geodesy/deformation/test.deformation",
    "geodesy/deformation/another_test.deformation",
    "geodesy/deformation/eur_nkg_nkgrf17vel.deformation",
];
const BIG_FILE: &str = "geodesy/deformation/eur_nkg_nkgrf17vel.deformation";

fn repo_dir() -> String {
    std::env::var("VERIF_REPO_DIR").unwrap_or_else(|_| "/repo".into())
}

fn shipped() -> &'static BTreeMap<String, Arc<Vec<u8>>> {
    SHIPPED.get_or_init(|| {
        let mut m = BTreeMap::new();
        for f in SHIPPED_FILES.iter().chain(["geodesy/gsb/5458.gsa", "geodesy/gsb/5458_with_subgrid.gsa"].iter()) {
            let p = format!("{}/{}", repo_dir(), f);
            match std::fs::read(&p) {
                Ok(b) => {
                    m.insert(f.to_string(), Arc::new(b));
                }
                Err(e) => {
                    eprintln!("cannot read shipped grid file {p}: {e}");
                    std::process::exit(2);
                }
            }
        }
        m
    })
}

fn src_bytes(s: &Src) -> Result<Arc<Vec<u8>>, KM> {
    match s {
        Src::Shipped(p) => shipped().get(p).cloned().ok_or_else(|| ("harness-missing-file".to_string(), format!("no shipped file {p}"))),
        Src::Inline(h) => Ok(Arc::new(h.0.clone())),
    }
}

fn is_ntv2_name(p: &str) -> bool {
    p.ends_with(".gsb")
}

#[derive(Clone, Debug, Serialize, Deserialize)]
struct FaultCase {
    label: String,
    ntv2: bool,
    src: Src,
    faults: Vec<Fault>,
}

/// Header record byte ranges of a well-formed base file.
fn header_ranges(ntv2: bool, b: &[u8]) -> Vec<(usize, usize)> {
    if ntv2 {
        let mut v = vec![(0, NT_HDR.min(b.len()))];
        for h in nt_walk(b, 1 << 16) {
            v.push((h.off, (h.off + NT_HDR).min(b.len())));
        }
        v
    } else {
        let t = grav_tokens(&b[..b.len().min(4096)]);
        if t.len() >= 6 {
            vec![(t[0].0, t[5].1)]
        } else {
            vec![(0, b.len())]
        }
    }
}

fn describe_fault(f: &Fault) -> String {
    match f {
        Fault::Overwrite { at, data } => format!("Overwrite {} bytes at {at}: {}", data.0.len(), hex_head(&data.0, 32)),
        Fault::Insert { at, data } => format!("Insert {} bytes at {at}: {}", data.0.len(), hex_head(&data.0, 32)),
        other => format!("{other:?}"),
    }
}

/// The oracle of every fault section.
fn check_fault_case(c: &FaultCase, rec: &mut Rec) -> CaseResult {
    let base = src_bytes(&c.src).map_err(|(key, msg)| Failure { key, msg })?;
    let mut b: Vec<u8> = (*base).clone();
    for f in &c.faults {
        apply_fault(&mut b, f);
    }
    let given = adaptive_queries(c.ntv2, &base);
    let ctx = format!(
        "base file: {} ({} bytes, {}), faults: [{}] -> {} bytes",
        c.label,
        base.len(),
        if c.ntv2 { "NTv2" } else { "Gravsoft" },
        c.faults.iter().map(describe_fault).collect::<Vec<_>>().join("; "),
        b.len()
    );
    let st = match check_grid_bytes_stats(c.ntv2, &b, &given) {
        Ok(s) => s,
        Err((key, msg)) => return Err(Failure { key, msg: format!("{ctx}\n{msg}") }),
    };
    rec.class(if st.skipped_cycle {
        "decoded-name-cycle-not-queried"
    } else if !st.decoded {
        "rejected"
    } else if st.interpolated > 0 {
        "decoded-and-interpolated"
    } else {
        "decoded-queried-no-hit"
    });
    if st.skipped_cycle {
        rec.count("excluded_known", 1);
    }
    rec.count("queries", st.queries as u64);
    rec.metric("peak_alloc_fraction_of_limit", st.peak_alloc as f64 / (64 * b.len() + (1 << 20)) as f64);
    // non-trivial: the damage is inside the file proper (not a no-op) and touches a header
    // record or changes size/count
    let hr = header_ranges(c.ntv2, &base);
    let in_hdr = |at: usize, len: usize| hr.iter().any(|(s, e)| at < *e && at + len.max(1) > *s);
    let mut nt = false;
    for f in &c.faults {
        nt |= match f {
            Fault::Truncate(n) => *n < base.len(),
            Fault::BitFlip { byte, .. } => in_hdr(*byte, 1),
            Fault::Overwrite { at, data } => in_hdr(*at, data.0.len()),
            Fault::Copy { to, len, .. } => in_hdr(*to, *len),
            Fault::Delete { at, len } => *at < base.len() && *len > 0,
            Fault::Insert { data, .. } => !data.0.is_empty(),
            Fault::TokenReplace { .. } | Fault::TokenDelete { .. } | Fault::Append(_) => true,
        };
    }
    if nt && b != *base {
        let mut h = std::collections::hash_map::DefaultHasher::new();
        use std::hash::{Hash, Hasher};
        b.hash(&mut h);
        rec.nontrivial(&(c.ntv2, b.len(), h.finish()));
    }
    Ok(())
}

// =====================================================================================
// Generators of well-formed grids
// =====================================================================================

#[derive(Clone, Debug, Serialize, Deserialize)]
struct GravCase {
    spec: GravSpec, // as written
    text: String,
}

fn grav_layout() -> impl Strategy<Value = GravLayout> {
    (
        (0u8..5, 0u8..4, 0u8..4, 0u8..4, any::<bool>(), any::<bool>()),
        (any::<bool>(), 0u8..6, 0u8..8, any::<bool>(), any::<bool>(), 0u8..4, any::<bool>()),
        (0u8..6, any::<bool>(), any::<bool>(), 0u8..10, any::<u16>(), any::<u32>()),
    )
        .prop_map(|((comments_top, header_split, per_line, sep, crlf, trailing_comments), (blank_lines, hdr_style, val_style, dlat_neg, dlon_neg, tail, indent), (glue, hdr_comments, last_comment, wrap, wrap_k, wrap_seed))| GravLayout {
            wrap,
            wrap_k,
            wrap_seed,
            glue,
            hdr_comments,
            last_comment,
            comments_top,
            header_split,
            per_line,
            sep,
            crlf,
            trailing_comments,
            blank_lines,
            hdr_style,
            val_style,
            dlat_neg,
            dlon_neg,
            tail,
            indent,
        })
}

/// rows, cols in 2..=max; spacing and origin on a decimal lattice so that the extent is a whole
/// number of cells; angular grids inside lat [-90, 90], lon [-180, 360]; linear (projected) grids
/// with every mixture of bounds inside/outside [-720, 720] (at least one outside).
fn grav_spec(max_side: usize) -> impl Strategy<Value = GravSpec> {
    (
        (2usize..=max_side, 2usize..=max_side, 1usize..=3, prop::bool::weighted(0.3)),
        (1u32..=5000, 1u32..=5000, any::<u16>(), any::<u16>()),
        prop::collection::vec((-2_000_000i32..2_000_000, 0u8..3), 1..=12),
        any::<u64>(),
        (0u8..6, 0u8..6),
    )
        .prop_map(|((rows, cols, bands, projected), (ka, kb, oa, ob), seedvals, mix, (cat_a, cat_b))| {
            let (mut rows, mut cols) = (rows, cols);
            let (dlat, dlon, lat_s, lon_w);
            if projected {
                // Linear (projected) grids: every mixture of bounds inside / outside [-720, 720].
                // Per axis: 0 both beyond +720; 1 low bound inside (incl. 0 and negative), high beyond;
                // 2 both inside; 3 low below -720, high inside; 4 both below -720; 5 low below -720,
                // high beyond +720. Both axes inside would be an angular grid by the documented rule,
                // so that combination is mapped to (2, 0). All numbers are multiples of 0.25: exact.
                let (cat_a, cat_b) = if cat_a == 2 && cat_b == 2 { (2, 0) } else { (cat_a, cat_b) };
                let axis = |cat: u8, n: usize, k: u32, o: u16| -> (f64, f64) {
                    let cells = (n - 1) as f64;
                    let d = k as f64 * 0.25; // 0.25 .. 1250
                    let small = if o % 7 == 0 { 0.0 } else { (o % 1441) as f64 - 720.0 }; // in [-720, 720]
                    let wide = d + (1500.0 / cells).ceil(); // extent >= 1500
                    match cat {
                        0 => (1000.0 + (o as f64 * 150.0).floor(), d),
                        1 => (small, wide),
                        2 => {
                            let dd = d.min(((1400.0 / cells) / 0.25).floor() * 0.25).max(0.25);
                            let ext = cells * dd;
                            (-720.0 + ((o as f64 / 65536.0) * (1440.0 - ext)).floor(), dd)
                        }
                        3 => (small - cells * wide, wide),
                        4 => (-(100_000.0 + (o as f64 * 12.0).floor()) - cells * d, d),
                        _ => {
                            let lo = -(721.0 + (o % 5000) as f64);
                            (lo, d + ((lo.abs() + 800.0) / cells).ceil())
                        }
                    }
                };
                (lat_s, dlat) = axis(cat_a, rows, ka, oa);
                (lon_w, dlon) = axis(cat_b, cols, kb, ob);
            } else {
                // Angular grids. Per axis: 0/1 anywhere in the geographic range on a decimal lattice;
                // 2 upper bound exactly on a special value (90, 180, 360, 720, 0, negatives ...);
                // 3 lower bound exactly on one; 4 global (-90..90, 0..360 or -180..180);
                // 5 a bound just beyond +-720 (which makes the grid linear by the documented rule).
                // Categories 2..5 use spacings that are multiples of 1/8 so that the bounds are exact.
                let axis = |cat: u8, n: usize, k: u32, o: u16, is_lat: bool| -> (f64, f64, usize) {
                    let cells = (n - 1) as f64;
                    let d8 = (1 + k % 80) as f64 * 0.125;
                    let specials: &[f64] = if is_lat { &[90.0, -90.0, 90.0, -90.0, 0.0, 360.0, -360.0, 720.0, -720.0] } else { &[180.0, -180.0, 360.0, -360.0, 720.0, -720.0, 0.0, 360.0, 180.0] };
                    let sp = specials[o as usize % specials.len()];
                    let cat = if cat == 5 && o % 3 != 0 { 0 } else { cat }; // keep most grids angular
                    match cat {
                        2 => (sp - cells * d8, d8, n),
                        3 => (sp, d8, n),
                        4 => {
                            // n-1 must divide the span into a binary-exact spacing
                            let n2 = [2usize, 3, 4, 5, 6, 7, 9, 10, 11, 13, 17].iter().cloned().filter(|m| *m <= n.max(2)).last().unwrap_or(2);
                            let (lo, span) = if is_lat { (-90.0, 180.0) } else if o % 2 == 0 { (0.0, 360.0) } else { (-180.0, 360.0) };
                            (lo, span / (n2 - 1) as f64, n2)
                        }
                        5 => {
                            let beyond = 720.0 + 0.125 * (1 + o % 4) as f64;
                            if o % 8 < 4 {
                                (beyond - cells * d8, d8, n)
                            } else {
                                (-beyond, d8, n)
                            }
                        }
                        _ => {
                            let d = k as f64 / 1000.0;
                            let e = cells * d;
                            let (lo, span) = if is_lat { (-90.0, 180.0) } else { (-180.0, 540.0) };
                            (((lo + (o as f64 / 65536.0) * (span - e)) * 100.0).floor() / 100.0, d, n)
                        }
                    }
                };
                let (rows2, cols2);
                (lat_s, dlat, rows2) = axis(cat_a, rows, ka, oa, true);
                (lon_w, dlon, cols2) = axis(cat_b, cols, kb, ob, false);
                rows = rows2;
                cols = cols2;
            }
            let lat_n = lat_s + (rows - 1) as f64 * dlat;
            let lon_e = lon_w + (cols - 1) as f64 * dlon;
            // values: a deterministic mix of the drawn seeds (few draws, many nodes)
            let n = rows * cols * bands;
            let mut values = Vec::with_capacity(n);
            let mut x = mix | 1;
            for i in 0..n {
                x ^= x << 13;
                x ^= x >> 7;
                x ^= x << 17;
                let (v, k) = seedvals[(x as usize) % seedvals.len()];
                let jitter = ((x >> 20) % 20001) as i64 - 10000;
                let scale = [1.0, 100.0, 10000.0][k as usize];
                values.push(F((v as i64 + jitter * (i as i64 % 7 + 1)) as f64 / scale));
            }
            GravSpec { lat_s: F(lat_s), lat_n: F(lat_n), lon_w: F(lon_w), lon_e: F(lon_e), dlat: F(dlat), dlon: F(dlon), rows, cols, bands, values }
        })
}

fn grav_case(max_side: usize) -> impl Strategy<Value = GravCase> {
    (grav_spec(max_side), grav_layout()).prop_map(|(raw, lay)| {
        let (text, spec) = grav_render(&raw, &lay);
        GravCase { spec, text }
    })
}

#[derive(Clone, Debug, Serialize, Deserialize)]
struct NtCase {
    spec: NtSpec,
    bytes: Hex,
}

#[derive(Clone, Debug)]
struct RawSub {
    a: u16,
    b: u16,
    c: u16,
    d: u16,
    div: u8,
    inc_a: u8,
    inc_b: u8,
    rows: u8,
    cols: u8,
    parent: u16,
    order: u16,
    vseed: u32,
}

fn raw_sub() -> impl Strategy<Value = RawSub> {
    ((any::<u16>(), any::<u16>(), any::<u16>(), any::<u16>()), (0u8..3, 0u8..5, 0u8..5, 2u8..=7, 2u8..=7), (any::<u16>(), any::<u16>(), any::<u32>()))
        .prop_map(|((a, b, c, d), (div, inc_a, inc_b, rows, cols), (parent, order, vseed))| RawSub { a, b, c, d, div, inc_a, inc_b, rows, cols, parent, order, vseed })
}

/// Integer arc-second lattice, east positive internally.
#[derive(Clone, Debug)]
struct Placed {
    name: String,
    parent: Option<usize>,
    s: i64,
    w: i64,
    inc_lat: i64,
    inc_lon: i64,
    rows: usize,
    cols: usize,
    kids: Vec<(usize, usize, usize, usize)>, // (r0, r1, c0, c1) in this grid's cell lines, from south / from west
    vseed: u32,
    order: u16,
}

const ROOT_INCS: [i64; 5] = [3600, 1800, 7200, 600, 1200];

fn build_tree(raws: &[RawSub], names_style: u8) -> Vec<Placed> {
    let mut out: Vec<Placed> = vec![];
    let mut cursor_w: i64 = -170 * 3600;
    for (i, r) in raws.iter().enumerate() {
        let name = match names_style % 4 {
            0 => format!("G{i}"),
            1 => format!("SUB_{:04}", 1000 + i * 37),
            2 => format!("{}{}", ["a", "Bb", "xyzXYZ_", "Q"][i % 4], i),
            _ => format!("{:08}", 5458 + i * 98),
        };
        let as_root = out.is_empty() || r.parent % 5 == 0;
        let mut placed = false;
        if !as_root {
            let pi = pick(r.parent, out.len());
            let p = out[pi].clone();
            // choose a cell-aligned window of the parent
            let r0 = pick(r.a, p.rows - 1);
            let r1 = r0 + 1 + pick(r.b, p.rows - 1 - r0);
            let c0 = pick(r.c, p.cols - 1);
            let c1 = c0 + 1 + pick(r.d, p.cols - 1 - c0);
            let overlap = p.kids.iter().any(|k| r0 < k.1 && k.0 < r1 && c0 < k.3 && k.2 < c1);
            let whole = r0 == 0 && c0 == 0 && r1 == p.rows - 1 && c1 == p.cols - 1;
            let mut div = [2i64, 3, 4][r.div as usize % 3];
            let mut ok = false;
            for _ in 0..3 {
                let rows = (r1 - r0) as i64 * div + 1;
                let cols = (c1 - c0) as i64 * div + 1;
                if p.inc_lat % div == 0 && p.inc_lon % div == 0 && rows * cols <= 180 {
                    ok = true;
                    break;
                }
                div = if div == 2 { 3 } else { 2 };
                if div == 3 && (p.inc_lat % 3 != 0 || p.inc_lon % 3 != 0) {
                    div = 2;
                }
            }
            if !overlap && !whole && ok && p.inc_lat % div == 0 && p.inc_lon % div == 0 && ((r1 - r0) as i64 * div + 1) * ((c1 - c0) as i64 * div + 1) <= 180 {
                out[pi].kids.push((r0, r1, c0, c1));
                out.push(Placed {
                    name: name.clone(),
                    parent: Some(pi),
                    s: p.s + r0 as i64 * p.inc_lat,
                    w: p.w + c0 as i64 * p.inc_lon,
                    inc_lat: p.inc_lat / div,
                    inc_lon: p.inc_lon / div,
                    rows: ((r1 - r0) as i64 * div + 1) as usize,
                    cols: ((c1 - c0) as i64 * div + 1) as usize,
                    kids: vec![],
                    vseed: r.vseed,
                    order: r.order,
                });
                placed = true;
            }
        }
        if !placed && (as_root || out.iter().filter(|p| p.parent.is_none()).count() < 3) {
            let mut inc_lat = ROOT_INCS[r.inc_a as usize % 5];
            let mut inc_lon = ROOT_INCS[r.inc_b as usize % 5];
            let (rows, cols) = (r.rows as usize, r.cols as usize);
            // latitude: anywhere in [-80, 80], or touching a pole exactly, or pole to pole
            let lat_variant = r.d % 8;
            if lat_variant == 7 {
                inc_lat = 180 * 3600 / (rows as i64 - 1); // rows-1 in 1..=6 divides 648000
            }
            let el = (rows as i64 - 1) * inc_lat;
            let s = match lat_variant {
                5 => 90 * 3600 - el,
                6 | 7 => -90 * 3600,
                _ => -80 * 3600 + ((r.a as i64 * (160 * 3600 - el)) / 65536 / 3600) * 3600,
            };
            // longitude: next free slot from -170 deg, or exactly at -180 / +180 / 0, or 0..360 / -180..180
            let lon_variant = r.c % 10;
            if lon_variant >= 8 {
                inc_lon = 360 * 3600 / (cols as i64 - 1); // cols-1 in 1..=6 divides 1296000
            }
            let ew = (cols as i64 - 1) * inc_lon;
            let w = match lon_variant {
                4 => -180 * 3600,
                5 => 180 * 3600 - ew,
                6 => 0,
                7 => 360 * 3600 - ew,
                8 => 0,
                9 => -180 * 3600,
                _ => cursor_w,
            };
            // roots must stay clear of each other (4 coarse cells)
            let gap = 4 * 7200;
            let clear = out.iter().filter(|p| p.parent.is_none()).all(|p| {
                let (pn, pe) = (p.s + (p.rows as i64 - 1) * p.inc_lat, p.w + (p.cols as i64 - 1) * p.inc_lon);
                s > pn + gap || s + el < p.s - gap || w > pe + gap || w + ew < p.w - gap
            });
            if clear {
                if lon_variant < 4 {
                    cursor_w += ew + gap;
                }
                out.push(Placed { name, parent: None, s, w, inc_lat, inc_lon, rows, cols, kids: vec![], vseed: r.vseed, order: r.order });
            }
        }
    }
    out
}

fn tree_to_spec(tree: &[Placed], big_endian: bool, end_record: bool, pad: u8) -> NtSpec {
    let mut idx: Vec<usize> = (0..tree.len()).collect();
    idx.sort_by_key(|i| (tree[*i].order, *i));
    let subs = idx
        .iter()
        .map(|&i| {
            let p = &tree[i];
            let n = p.s + (p.rows as i64 - 1) * p.inc_lat;
            let e = p.w + (p.cols as i64 - 1) * p.inc_lon;
            let mut x = (p.vseed as u64) << 1 | 1;
            let nodes = (0..p.rows * p.cols)
                .map(|_| {
                    let mut g = |m: u64, div: f64, off: f64| {
                        x ^= x << 13;
                        x ^= x >> 7;
                        x ^= x << 17;
                        F((((x >> 11) % m) as f64 / div - off) as f32 as f64)
                    };
                    [g(1_000_001, 10_000.0, 50.0), g(1_000_001, 10_000.0, 50.0), g(1000, 1000.0, 0.0), g(1000, 1000.0, 0.0)]
                })
                .collect();
            NtSub {
                name: p.name.clone(),
                parent: p.parent.map(|q| tree[q].name.clone()).unwrap_or_else(|| "NONE".into()),
                created: "20260927".into(),
                updated: "20260927".into(),
                s_lat: F(p.s as f64),
                n_lat: F(n as f64),
                e_long: F(-e as f64),
                w_long: F(-p.w as f64),
                lat_inc: F(p.inc_lat as f64),
                long_inc: F(p.inc_lon as f64),
                nodes,
            }
        })
        .collect();
    NtSpec {
        big_endian,
        gs_type: "SECONDS".into(),
        version: "NTv2.0".into(),
        system_f: "ED50".into(),
        system_t: "ETRS89".into(),
        major_f: F(6378388.0),
        minor_f: F(6356911.946127946),
        major_t: F(6378137.0),
        minor_t: F(6356752.314140356),
        subs,
        end_record,
        pad,
    }
}

fn nt_case(max_subs: usize) -> impl Strategy<Value = NtCase> {
    (prop::collection::vec(raw_sub(), 1..=max_subs), any::<bool>(), prop::bool::weighted(0.8), prop_oneof![Just(0u8), any::<u8>()], 0u8..4).prop_map(|(raws, be, end, pad, style)| {
        let tree = build_tree(&raws, style);
        let spec = tree_to_spec(&tree, be, end, pad);
        let bytes = Hex(nt_encode(&spec));
        NtCase { spec, bytes }
    })
}


// =====================================================================================
// Node values that formats and codes conventionally treat as special
// =====================================================================================

/// Spellings of ordinary numbers that some format, code or convention somewhere treats as a
/// sentinel / nodata / limit value. Neither Gravsoft-as-documented-here nor NTv2 gives any node
/// value a special meaning, so each must decode to the number written. Every spelling is accepted
/// by `f64::from_str` and is finite as f32.
const SPECIALS: [&str; 84] = [
    "0", "-0", "0.0", "-0.0", "+0", "0e0", "1", "-1", "+1", "1.", "-1.0", "1e0",
    "9999", "9999.0", "9.999e3", "+9999", "9999.", "0.9999E4", "09999", "9999.00000000000000000000000", "99990e-1", "9.999E+3",
    "-9999", "-9999.0", "-9.999e3", "9998", "10000", "9999.5", "-9999.99", "9999.9", "999.9", "99.99", "-99.99",
    "999", "-999", "-999.0", "99", "-99", "99999", "-99999", "99999.0", "999999", "-999999", "9999999", "-9999999", "88888", "-88888", "88888.0", "8888",
    "32767", "-32768", "-32767", "-32768.0", "65535", "65536", "255", "-128", "2147483647", "-2147483648", "4294967295",
    "1e10", "-1e10", "1e15", "1e20", "1e30", "-1e30", "1E30", "1.0e+30", "-1.0E+34", "9.96921e36", "1e38",
    "3.4028235e38", "-3.4028235e38", "3.4028234663852886e38", "1.70141e38",
    "1e-38", "1.17549435e-38", "-1.17549435e-38", "1e-40", "-1e-40", "1.4e-45", "1e-320",
    "123456789", "3.14159265358979323846264338327950288",
];

/// 0 zero, 1 moderate (|v| <= 1e7), 2 big, 3 tiny
fn special_tier(v: f64) -> u8 {
    let a = v.abs();
    if a == 0.0 {
        0
    } else if a < 1e-30 {
        3
    } else if a <= 1e7 {
        1
    } else {
        2
    }
}

fn special_val(i: usize) -> f64 {
    SPECIALS[i % SPECIALS.len()].parse::<f64>().expect("menu entry parses")
}

/// Indices of the menu usable in a grid of magnitude class `tier` (0 moderate, 1 tiny, 2 big, 3 all).
fn specials_of(tier: u8) -> Vec<usize> {
    (0..SPECIALS.len())
        .filter(|i| {
            let t = special_tier(special_val(*i));
            match tier % 4 {
                0 => t <= 1,
                1 => t == 0 || t == 3,
                2 => t == 2,
                _ => true,
            }
        })
        .collect()
}

const POS_NAMES: [&str; 8] = ["first-nw-corner", "last-se-corner", "ne-corner", "sw-corner", "north-or-south-edge", "west-or-east-edge", "interior", "anywhere"];

/// (row from north, column from west) of position class `pos` in a rows x cols grid.
fn pos_node(pos: u8, rows: usize, cols: usize, a: u16, b: u16) -> (usize, usize) {
    match pos % 8 {
        0 => (0, 0),
        1 => (rows - 1, cols - 1),
        2 => (0, cols - 1),
        3 => (rows - 1, 0),
        4 => (if a & 1 == 0 { 0 } else { rows - 1 }, if cols > 2 { 1 + pick(b, cols - 2) } else { pick(b, cols) }),
        5 => (if rows > 2 { 1 + pick(b, rows - 2) } else { pick(b, rows) }, if a & 1 == 0 { 0 } else { cols - 1 }),
        6 => (if rows > 2 { 1 + pick(a, rows - 2) } else { pick(a, rows) }, if cols > 2 { 1 + pick(b, cols - 2) } else { pick(b, cols) }),
        _ => (pick(a, rows), pick(b, cols)),
    }
}

/// A filler of the same magnitude class as the special value `v` (so that the per-node tolerance
/// at the special node is governed by that node): |filler| < 0.8 x unit, unit = |v| for big and tiny
/// values, 64 otherwise.
fn filler(v: f64, k: usize) -> f64 {
    let unit = if matches!(special_tier(v), 2 | 3) { v.abs() } else { 64.0 };
    unit * (((k * 37 + 11) % 101) as f64 - 50.0) / 64.0
}

#[derive(Clone, Debug, Serialize, Deserialize)]
struct Hot {
    row: usize,
    col: usize,
    band: usize,
    pos: u8,
    spelling: String,
}

#[derive(Clone, Debug, Serialize, Deserialize)]
struct GravSpecialCase {
    spec: GravSpec, // as written
    text: String,
    tier: u8,
    hots: Vec<Hot>,
    sprinkled: usize,
}

fn plain_layout(k: usize) -> GravLayout {
    GravLayout {
        comments_top: (k % 3) as u8,
        header_split: (k % 4) as u8,
        per_line: ((k / 4) % 4) as u8,
        sep: ((k / 16) % 4) as u8,
        crlf: (k / 64) % 2 == 1,
        trailing_comments: (k / 128) % 2 == 1,
        blank_lines: false,
        hdr_style: 0,
        val_style: 0,
        dlat_neg: k % 2 == 1,
        dlon_neg: false,
        tail: (k % 4) as u8,
        indent: (k / 2) % 2 == 1,
        glue: (k % 6) as u8,
        hdr_comments: false,
        last_comment: (k / 8) % 2 == 1,
        wrap: if k % 5 == 0 { 4 } else { 0 },
        wrap_k: 0,
        wrap_seed: 0,
    }
}

/// The exhaustive cross product: special spelling x position class (7) x (band, band count) (6) x angular/linear.
const GRAV_ENUM_PER_SPECIAL: usize = 7 * 6 * 2;
fn grav_special_enum(i: usize) -> GravSpecialCase {
    let si = i / GRAV_ENUM_PER_SPECIAL;
    let j = i % GRAV_ENUM_PER_SPECIAL;
    let (pos, j) = ((j % 7) as u8, j / 7);
    let (bb, linear) = (j % 6, j / 6 == 1);
    let (bands, band) = [(1usize, 0usize), (2, 0), (2, 1), (3, 0), (3, 1), (3, 2)][bb];
    let (rows, cols) = (4usize, 5usize);
    let spelling = SPECIALS[si].to_string();
    let v = special_val(si);
    let (lat_s, lon_w, d) = if linear { (6_100_000.0, 400_000.0, 1000.0) } else { (54.0, 8.0, 0.5) };
    let mut values = vec![];
    for k in 0..rows * cols * bands {
        values.push(F(filler(v, k + i)));
    }
    let (r, c) = pos_node(pos, rows, cols, (i / 3) as u16, (i as u16).wrapping_mul(7919));
    let mut verbatim = BTreeMap::new();
    verbatim.insert((r * cols + c) * bands + band, spelling.clone());
    let raw = GravSpec { lat_s: F(lat_s), lat_n: F(lat_s + (rows - 1) as f64 * d), lon_w: F(lon_w), lon_e: F(lon_w + (cols - 1) as f64 * d), dlat: F(d), dlon: F(d), rows, cols, bands, values };
    let mut lay = plain_layout(i);
    if matches!(special_tier(v), 2 | 3) {
        lay.val_style = 2; // exponent form for the fillers
    }
    let (text, spec) = grav_render_with(&raw, &lay, &verbatim);
    GravSpecialCase { spec, text, tier: [0, 0, 2, 1][special_tier(v) as usize], hots: vec![Hot { row: r, col: c, band, pos, spelling }], sprinkled: 0 }
}

type RawHot = (u8, u16, u16, u8, u16);
fn raw_hots() -> impl Strategy<Value = Vec<RawHot>> {
    prop::collection::vec((0u8..8, any::<u16>(), any::<u16>(), 0u8..4, any::<u16>()), 1..=4)
}

/// Random grids (geometry and layout as in gravsoft-roundtrip) whose values are of one magnitude
/// class (moderate / tiny and zero / big / everything mixed), with special spellings sprinkled at
/// density none, 1/8, 1/2 or everywhere, and 1..4 forced at drawn position classes and bands.
fn grav_special_case() -> impl Strategy<Value = GravSpecialCase> {
    (grav_spec(7), grav_layout(), 0u8..4, 0u8..4, any::<u64>(), raw_hots()).prop_map(|(mut raw, lay, tier, density, mix, rh)| {
        let menu = specials_of(tier);
        for v in raw.values.iter_mut() {
            v.0 = match tier {
                1 => v.0 * 0.5e-44,
                2 => v.0 * 1e25,
                _ => v.0,
            };
        }
        let mut verbatim = BTreeMap::new();
        let mut x = mix | 1;
        for i in 0..raw.values.len() {
            x ^= x << 13;
            x ^= x >> 7;
            x ^= x << 17;
            let take = match density {
                0 => false,
                1 => (x >> 9) & 7 == 0,
                2 => (x >> 9) & 1 == 0,
                _ => true,
            };
            if take {
                verbatim.insert(i, SPECIALS[menu[((x >> 24) as usize) % menu.len()]].to_string());
            }
        }
        let sprinkled = verbatim.len();
        let mut hots = vec![];
        for (pos, a, b, band, sp) in rh {
            let (r, c) = pos_node(pos, raw.rows, raw.cols, a, b);
            let band = band as usize % raw.bands;
            let spelling = SPECIALS[menu[pick(sp, menu.len())]].to_string();
            verbatim.insert((r * raw.cols + c) * raw.bands + band, spelling.clone());
            hots.retain(|h: &Hot| (h.row, h.col, h.band) != (r, c, band));
            hots.push(Hot { row: r, col: c, band, pos, spelling });
        }
        let (text, spec) = grav_render_with(&raw, &lay, &verbatim);
        GravSpecialCase { spec, text, tier, hots, sprinkled }
    })
}

fn check_grav_special(c: &GravSpecialCase, rec: &mut Rec) -> CaseResult {
    let ctx = format!(
        "Gravsoft file ({} bytes) with special node values [{}]:\n{}",
        c.text.len(),
        c.hots.iter().map(|h| format!("'{}' at row {} col {} band {} ({})", h.spelling, h.row, h.col, h.band, POS_NAMES[h.pos as usize % 8])).collect::<Vec<_>>().join(", "),
        c.text.chars().take(1500).collect::<String>()
    );
    // the written specification says what the spelling says
    for h in &c.hots {
        let k = (h.row * c.spec.cols + h.col) * c.spec.bands + h.band;
        let want = h.spelling.parse::<f64>().unwrap_or(f64::NAN);
        if !(c.spec.values[k].0 == want) {
            return Err(Failure { key: "harness-bad-spec".into(), msg: format!("{ctx}\nspec value {:?} is not the spelling {:?}", c.spec.values[k].0, h.spelling) });
        }
    }
    match check_grav_decode(c.text.as_bytes(), &c.spec, true) {
        Ok(s) => {
            let kind = if c.spec.angular() { "angular" } else { "linear" };
            rec.class(&format!("bands{}-{kind}", c.spec.bands));
            rec.class(["magnitudes-moderate-and-zero", "magnitudes-tiny-and-zero", "magnitudes-big", "magnitudes-mixed"][c.tier as usize % 4]);
            for h in &c.hots {
                rec.class(&format!("special-value-at-{}", POS_NAMES[h.pos as usize % 8]));
                rec.class(&format!("special-value-in-band{}-of-{}-{kind}", h.band, c.spec.bands));
                rec.class(&format!("special '{}'", h.spelling));
            }
            rec.count("special_nodes_verified", (c.hots.len() + c.sprinkled) as u64);
            rec.count("nodes_checked", s.nodes_checked);
            rec.metric("worst_fraction_of_node_tolerance", s.worst_rel);
            rec.nontrivial(&c.text);
            Ok(())
        }
        Err(e) => to_failure(Err(e), &ctx),
    }
}

#[derive(Clone, Debug, Serialize, Deserialize)]
struct NtHot {
    sub: usize, // file order
    node: usize, // file order (south-east first)
    column: usize,
    pos: u8,
    spelling: String,
}

#[derive(Clone, Debug, Serialize, Deserialize)]
struct NtSpecialCase {
    spec: NtSpec,
    bytes: Hex,
    tier: u8,
    hots: Vec<NtHot>,
    sprinkled: usize,
}

const NT_COLUMNS: [&str; 4] = ["lat-shift", "lon-shift", "lat-accuracy", "lon-accuracy"];

fn nt_dims(s: &NtSub) -> (usize, usize) {
    let rows = ((s.n_lat.0 - s.s_lat.0) / s.lat_inc.0).round() as usize + 1;
    let cols = ((s.w_long.0 - s.e_long.0) / s.long_inc.0).round() as usize + 1;
    (rows, cols)
}

/// file index of the node (row from north, column from west)
fn nt_file_index(rows: usize, cols: usize, r: usize, c: usize) -> usize {
    (rows - 1 - r) * cols + (cols - 1 - c)
}

fn f32_of(spelling: &str) -> f64 {
    (spelling.parse::<f64>().expect("menu entry parses") as f32) as f64
}

fn nt_special_from(mut spec: NtSpec, tier: u8, density: u8, mix: u64, rh: &[RawHot], only_sub: Option<usize>) -> NtSpecialCase {
    let menu = specials_of(tier);
    let mut x = mix | 1;
    let mut sprinkled = 0;
    for s in spec.subs.iter_mut() {
        for n in s.nodes.iter_mut() {
            for (k, v) in n.iter_mut().enumerate() {
                let base = match tier {
                    1 => v.0 * 2e-40,
                    2 => v.0 * 1e29,
                    _ => v.0,
                };
                x ^= x << 13;
                x ^= x >> 7;
                x ^= x << 17;
                let take = match density {
                    0 => false,
                    1 => (x >> 9) & 7 == 0,
                    2 => (x >> 9) & 1 == 0,
                    _ => true,
                };
                // accuracy columns draw from the whole menu: they are not served by `at`
                let m = if k >= 2 { (x >> 24) as usize % SPECIALS.len() } else { menu[(x >> 24) as usize % menu.len()] };
                v.0 = if take {
                    sprinkled += 1;
                    f32_of(SPECIALS[m])
                } else {
                    (base as f32) as f64
                };
            }
        }
    }
    let mut hots: Vec<NtHot> = vec![];
    for (pos, a, b, col, sp) in rh {
        let si = only_sub.unwrap_or_else(|| pick(*a ^ *b, spec.subs.len()));
        let (rows, cols) = nt_dims(&spec.subs[si]);
        let (r, c) = pos_node(*pos, rows, cols, *a, *b);
        let node = nt_file_index(rows, cols, r, c);
        let column = *col as usize % 4;
        let spelling = if column >= 2 { SPECIALS[pick(*sp, SPECIALS.len())] } else { SPECIALS[menu[pick(*sp, menu.len())]] }.to_string();
        spec.subs[si].nodes[node][column] = F(f32_of(&spelling));
        hots.retain(|h| (h.sub, h.node, h.column) != (si, node, column));
        hots.push(NtHot { sub: si, node, column, pos: *pos, spelling });
    }
    let bytes = Hex(nt_encode(&spec));
    NtSpecialCase { spec, bytes, tier, hots, sprinkled }
}

fn nt_special_case() -> impl Strategy<Value = NtSpecialCase> {
    (nt_case(4), 0u8..4, 0u8..4, any::<u64>(), raw_hots()).prop_map(|(c, tier, density, mix, rh)| nt_special_from(c.spec, tier, density, mix, &rh, None))
}

/// A root of 5 x 6 nodes, alone or with a child refined 2x over its cells (rows 1..3, cols 1..3 from
/// the south-west); arc second lattice.
fn nt_fixed_spec(big_endian: bool, with_child: bool, k: usize) -> NtSpec {
    let mk = |name: &str, parent: &str, s: i64, w: i64, inc: i64, rows: usize, cols: usize| NtSub {
        name: name.into(),
        parent: parent.into(),
        created: "20260928".into(),
        updated: "20260928".into(),
        s_lat: F(s as f64),
        n_lat: F((s + (rows as i64 - 1) * inc) as f64),
        e_long: F(-(w + (cols as i64 - 1) * inc) as f64),
        w_long: F(-w as f64),
        lat_inc: F(inc as f64),
        long_inc: F(inc as f64),
        nodes: (0..rows * cols).map(|i| [F(0.0), F(0.0), F(((i + k) % 7) as f64 * 0.125), F(((i + 2 * k) % 5) as f64 * 0.25)]).collect(),
    };
    let (s, w) = (54 * 3600i64, 8 * 3600i64);
    let mut subs = vec![mk("ROOT", "NONE", s, w, 3600, 5, 6)];
    if with_child {
        subs.push(mk("KID", "ROOT", s + 3600, w + 3600, 1800, 5, 5));
        if k % 2 == 1 {
            subs.swap(0, 1); // child before parent in the file
        }
    }
    NtSpec {
        big_endian,
        gs_type: "SECONDS".into(),
        version: "NTv2.0".into(),
        system_f: "ED50".into(),
        system_t: "ETRS89".into(),
        major_f: F(6378388.0),
        minor_f: F(6356911.946127946),
        major_t: F(6378137.0),
        minor_t: F(6356752.314140356),
        subs,
        end_record: k % 3 != 0,
        pad: if k % 4 == 0 { 0 } else { (k % 251) as u8 },
    }
}

/// special spelling x column (4) x position class (7) x byte order (2) x {root alone, root with a child, the child} (3)
const NT_ENUM_PER_SPECIAL: usize = 4 * 7 * 2 * 3;
fn nt_special_enum(i: usize) -> NtSpecialCase {
    let si = i / NT_ENUM_PER_SPECIAL;
    let j = i % NT_ENUM_PER_SPECIAL;
    let (column, j) = (j % 4, j / 4);
    let (pos, j) = ((j % 7) as u8, j / 7);
    let (be, which) = (j % 2 == 1, j / 2);
    let mut spec = nt_fixed_spec(be, which > 0, i);
    let v = f32_of(SPECIALS[si]);
    // shifts: fillers of the magnitude class of the special value (of moderate size when it sits in an accuracy column)
    for (a, s) in spec.subs.iter_mut().enumerate() {
        for (k, n) in s.nodes.iter_mut().enumerate() {
            let fv = if column >= 2 { 1.0 } else { v };
            n[0] = F((filler(fv, k + i + 3 * a) as f32) as f64);
            n[1] = F((filler(fv, 2 * k + i + 5 * a + 1) as f32) as f64);
        }
    }
    let target = spec.subs.iter().position(|s| s.name == if which == 2 { "KID" } else { "ROOT" }).unwrap_or(0);
    let (rows, cols) = nt_dims(&spec.subs[target]);
    let (r, c) = pos_node(pos, rows, cols, (i / 5) as u16, (i as u16).wrapping_mul(7919));
    let node = nt_file_index(rows, cols, r, c);
    spec.subs[target].nodes[node][column] = F(v);
    let bytes = Hex(nt_encode(&spec));
    NtSpecialCase { spec, bytes, tier: [0, 0, 2, 1][special_tier(v) as usize], hots: vec![NtHot { sub: target, node, column, pos, spelling: SPECIALS[si].to_string() }], sprinkled: 0 }
}

fn check_nt_special(c: &NtSpecialCase, rec: &mut Rec) -> CaseResult {
    let ctx = format!(
        "NTv2 file ({} bytes, {}), sub-grids in file order: {}; special node values: [{}]",
        c.bytes.0.len(),
        if c.spec.big_endian { "big endian" } else { "little endian" },
        c.spec.subs.iter().map(|s| format!("{}<-{} [S {} N {} E {} W {} inc {} {} n={}]", s.name, s.parent, s.s_lat.0, s.n_lat.0, s.e_long.0, s.w_long.0, s.lat_inc.0, s.long_inc.0, s.nodes.len())).collect::<Vec<_>>().join(", "),
        c.hots.iter().map(|h| format!("'{}' in {} of node record {} of sub-grid #{} ({})", h.spelling, NT_COLUMNS[h.column], h.node, h.sub, POS_NAMES[h.pos as usize % 8])).collect::<Vec<_>>().join(", ")
    );
    // the bytes say what the spelling says, in the byte order of the file
    let hdrs = nt_walk(&c.bytes.0, 64);
    for h in &c.hots {
        let got = hdrs.get(h.sub).and_then(|hd| rd_f32(&c.bytes.0, hd.off + NT_HDR + 16 * h.node + 4 * h.column, c.spec.big_endian));
        let want = f32_of(&h.spelling) as f32;
        if got.map(|g| g.to_bits()) != Some(want.to_bits()) {
            return Err(Failure { key: "harness-bad-spec".into(), msg: format!("{ctx}\nencoded {got:?}, wanted {want:?}") });
        }
    }
    match check_nt_decode(&c.bytes.0, &c.spec, true) {
        Ok(s) => {
            rec.class(if c.spec.big_endian { "big-endian" } else { "little-endian" });
            rec.class(&format!("subgrids-{}", c.spec.subs.len().min(6)));
            rec.class(["magnitudes-moderate-and-zero", "magnitudes-tiny-and-zero", "magnitudes-big", "magnitudes-mixed"][c.tier as usize % 4]);
            let ms = nt_models(&c.spec).map_err(|e| Failure { key: "harness-bad-spec".into(), msg: e })?;
            let mut any_served = false;
            for h in &c.hots {
                let sub = &c.spec.subs[h.sub];
                let (rows, cols) = nt_dims(sub);
                let (r, cc) = (rows - 1 - h.node / cols, cols - 1 - h.node % cols);
                let (lon, lat) = ms[h.sub].node(r, cc);
                let served = nt_clear_owner(&ms, lon, lat) == Some(h.sub);
                any_served |= served;
                let kind = if sub.parent == "NONE" { "root" } else { "child" };
                let end = if c.spec.big_endian { "BE" } else { "LE" };
                if served {
                    rec.class(&format!("special-value-at-{}-of-{kind}", POS_NAMES[h.pos as usize % 8]));
                    rec.class(&format!("special-value-in-{}-{end}", NT_COLUMNS[h.column]));
                    rec.class(&format!("special '{}'", h.spelling));
                } else {
                    rec.class("special-node-served-by-another-sub-grid");
                }
            }
            rec.count("special_values_written", (c.hots.len() + c.sprinkled) as u64);
            rec.count("nodes_checked", s.nodes_checked);
            rec.count("skipped_ambiguous_points", s.skipped_ambiguous);
            rec.metric("worst_fraction_of_node_tolerance", s.worst_rel);
            if s.nodes_checked > 0 && any_served {
                rec.nontrivial(&c.bytes);
            }
            Ok(())
        }
        Err(e) => to_failure(Err(e), &ctx),
    }
}

/// NaN / infinity literals as node values of a text grid: a separate matter (nothing is
/// documented about them); the only demand is Err or a safely queryable grid.
const NONFINITE_TOKENS: [&str; 12] = ["NaN", "nan", "-NaN", "inf", "-inf", "+inf", "Inf", "infinity", "-Infinity", "1e39", "-1e39", "1e999"];

// =====================================================================================
// Generators of damaged files
// =====================================================================================

#[derive(Clone, Debug)]
struct RawFault {
    kind: u8,
    a: u16,
    b: u16,
    c: u16,
    sp: u8,
    data: Vec<u8>,
}

fn raw_fault(kinds: u8) -> impl Strategy<Value = RawFault> {
    (0..kinds, any::<u16>(), any::<u16>(), any::<u16>(), any::<u8>(), prop::collection::vec(any::<u8>(), 1..=24)).prop_map(|(kind, a, b, c, sp, data)| RawFault { kind, a, b, c, sp, data })
}

fn enc_f64(v: f64, be: bool) -> Hex {
    Hex(if be { v.to_be_bytes().to_vec() } else { v.to_le_bytes().to_vec() })
}
fn enc_u32(v: u32, be: bool) -> Hex {
    Hex(if be { v.to_be_bytes().to_vec() } else { v.to_le_bytes().to_vec() })
}

const NT_DBL_OFFS: [usize; 6] = [72, 88, 104, 120, 136, 152]; // S_LAT N_LAT E_LONG W_LONG LAT_INC LONG_INC
const NT_KINDS: u8 = 12;

fn resolve_nt(base: &[u8], rf: &RawFault) -> Vec<Fault> {
    let hdrs = nt_walk(base, 1 << 16);
    let be = nt_be(base);
    let len = base.len().max(1);
    if hdrs.is_empty() {
        return vec![Fault::Overwrite { at: pick(rf.a, len), data: Hex(rf.data.clone()) }];
    }
    let h = &hdrs[pick(rf.a, hdrs.len())];
    let block = |h: &NtHdr| (h.off, NT_HDR + h.count as usize * 16);
    match rf.kind {
        0 => vec![Fault::Overwrite { at: pick(rf.b, len), data: Hex(rf.data.clone()) }],
        1 => {
            let rec = pick(rf.a, hdrs.len() + 1);
            let off = if rec == 0 { 0 } else { hdrs[rec - 1].off };
            let mut d = rf.data.clone();
            d.truncate(16);
            vec![Fault::Overwrite { at: off + pick(rf.b, NT_HDR), data: Hex(d) }]
        }
        2 => {
            let fi = pick(rf.b, 6);
            let at = h.off + NT_DBL_OFFS[fi];
            let v = rd_f64(base, at, be).unwrap_or(0.0);
            let other = rd_f64(base, h.off + NT_DBL_OFFS[fi ^ 1], be).unwrap_or(0.0);
            let inc = if fi < 2 { h.lat_inc } else { h.long_inc };
            let menu = [f64::NAN, f64::INFINITY, f64::NEG_INFINITY, 0.0, -0.0, 1e300, -1e300, 1e-300, 5e-324, -v, 2.0 * v, v + inc, other, 1e-9, v * 1e6, f64::MAX, v - inc, v + 0.5 * inc, other + 1e-7, -inc];
            vec![Fault::Overwrite { at, data: enc_f64(menu[rf.sp as usize % menu.len()], be) }]
        }
        3 => {
            let targets = [8usize, 24, 40, h.off + 168, h.off + 168, h.off + 168];
            let at = targets[pick(rf.b, targets.len())];
            let v = rd_u32(base, at, be).unwrap_or(0);
            let menu = [0u32, 1, 2, 3, 0x7fff_ffff, 0xffff_ffff, 0x8000_0000, v.wrapping_add(1), v.wrapping_sub(1), v.wrapping_mul(2), 65536, 1 << 28, 11, 12, 10, v / 2];
            vec![Fault::Overwrite { at, data: enc_u32(menu[rf.sp as usize % menu.len()], be) }]
        }
        4 => {
            // 8-byte text fields: copy a name/parent onto another name/parent, or write NONE / blanks
            let h2 = &hdrs[pick(rf.b, hdrs.len())];
            let from = h.off + if rf.c & 1 == 0 { 8 } else { 24 };
            let to = h2.off + if rf.c & 2 == 0 { 8 } else { 24 };
            match rf.sp % 5 {
                0 => vec![Fault::Overwrite { at: to, data: Hex(b"NONE    ".to_vec()) }],
                1 => vec![Fault::Overwrite { at: to, data: Hex(b"        ".to_vec()) }],
                _ => vec![Fault::Copy { from, to, len: 8 }],
            }
        }
        5 => vec![Fault::Truncate(pick(rf.b, len + 1))],
        6 => match rf.sp % 3 {
            0 => vec![Fault::Delete { at: pick(rf.b, len), len: 1 + rf.c as usize % 64 }],
            1 => vec![Fault::Delete { at: pick(rf.b, len / 16 + 1) * 16, len: 16 }],
            _ => {
                let (at, l) = block(h);
                vec![Fault::Delete { at, len: l }]
            }
        },
        7 => {
            // duplicate a whole sub-grid block at another block boundary (duplicate names), fix NUM_FILE or not
            let (at, l) = block(h);
            let data: Vec<u8> = base.iter().skip(at).take(l).cloned().collect();
            let h2 = &hdrs[pick(rf.b, hdrs.len())];
            let mut v = vec![Fault::Insert { at: h2.off, data: Hex(data) }];
            if rf.sp % 4 != 0 {
                v.push(Fault::Overwrite { at: 40, data: enc_u32(hdrs.len() as u32 + 1, be) });
            }
            if rf.sp % 3 == 0 {
                // make the copy a child of the original
                v.push(Fault::Copy { from: h2.off + 8, to: h2.off + 24, len: 8 });
            }
            v
        }
        8 => {
            // one row or one column, consistently declared
            let rows = (((h.n_lat - h.s_lat) / h.lat_inc).abs().round().min(4.0e9) as u32).wrapping_add(1);
            let cols = (((h.w_long - h.e_long) / h.long_inc).abs().round().min(4.0e9) as u32).wrapping_add(1);
            let mut v = vec![];
            let (mut r2, mut c2) = (rows, cols);
            if rf.sp & 1 == 0 {
                v.push(Fault::Copy { from: h.off + 88, to: h.off + 72, len: 8 }); // S_LAT := N_LAT
                r2 = 1;
            }
            if rf.sp & 2 == 0 {
                v.push(Fault::Copy { from: h.off + 104, to: h.off + 120, len: 8 }); // W_LONG := E_LONG
                c2 = 1;
            }
            if rf.sp & 4 == 0 {
                v.push(Fault::Overwrite { at: h.off + 168, data: enc_u32(r2.wrapping_mul(c2), be) });
            }
            v
        }
        9 => {
            // row count from a menu, increments and GS_COUNT made consistent with it
            let cols = (((h.w_long - h.e_long) / h.long_inc).abs().round().min(4.0e9) as u64).wrapping_add(1);
            let r = [2u64, 3, 65536, 1 << 20, 1 << 31, 1 << 32, ((1u64 << 32) / cols.max(1)).max(2)][rf.sp as usize % 7];
            let inc = (h.n_lat - h.s_lat) / (r - 1) as f64;
            vec![
                Fault::Overwrite { at: h.off + 136, data: enc_f64(inc, be) },
                Fault::Overwrite { at: h.off + 168, data: enc_u32((r.wrapping_mul(cols)) as u32, be) },
            ]
        }
        10 => vec![Fault::BitFlip { byte: pick(rf.b, len), bit: rf.sp % 8 }],
        _ => {
            // byte 8 decides the byte order
            vec![Fault::Overwrite { at: 8, data: Hex(vec![rf.data[0]]) }]
        }
    }
}

const TOKEN_MENU: [&str; 34] = [
    "NaN", "nan", "inf", "-inf", "infinity", "0", "-0", "0.0", "1e999", "-1e999", "1e-320", "1e-400", "abc", "--1", "1..2", "1,5", "0x10", "१२", "9223372036854775807", "1e19", "-1", "1", "720", "721",
    "-721", "1e308", "4.9e-324", ".", "+", "e5", "5e", "1e-9", "1e9", "#",
];
const TOKEN_MENU_SHORT: [&str; 14] = ["NaN", "inf", "-inf", "0", "-0", "1e999", "1e-320", "abc", "-1", "1", "721", "1e308", "1e-9", "1e19"];
const GRAV_KINDS: u8 = 9;

fn resolve_grav(base: &[u8], rf: &RawFault) -> Vec<Fault> {
    let len = base.len().max(1);
    let toks = grav_tokens(&base[..base.len().min(1 << 16)]);
    let nt = toks.len().max(1);
    let tok_text = |i: usize| toks.get(i).map(|(a, b)| String::from_utf8_lossy(&base[*a..*b]).to_string()).unwrap_or_else(|| "0".into());
    match rf.kind {
        0 => vec![Fault::Overwrite { at: pick(rf.b, len), data: Hex(rf.data.clone()) }],
        1 => vec![Fault::Truncate(pick(rf.b, len + 1))],
        2 => vec![Fault::Delete { at: pick(rf.b, len), len: 1 + rf.c as usize % 40 }],
        3 => vec![Fault::Insert { at: pick(rf.b, len + 1), data: Hex(rf.data.clone()) }],
        4 => {
            // header token
            let idx = pick(rf.b, 6);
            let text = if rf.sp as usize % 40 >= TOKEN_MENU.len() { tok_text(rf.sp as usize % 6) } else { TOKEN_MENU[rf.sp as usize % 40].to_string() };
            vec![Fault::TokenReplace { idx, text }]
        }
        5 => vec![Fault::TokenReplace { idx: pick(rf.b, nt), text: TOKEN_MENU[rf.sp as usize % TOKEN_MENU.len()].to_string() }],
        6 => vec![Fault::TokenDelete { idx: pick(rf.b, nt) }],
        7 => vec![Fault::Append("7.5 ".repeat(1 + rf.c as usize % 300))],
        _ => vec![Fault::BitFlip { byte: pick(rf.b, len), bit: rf.sp % 8 }],
    }
}

/// base selection + 1..3 composed faults, resolved to concrete offsets of that base
fn corrupt_case(ntv2: bool) -> impl Strategy<Value = FaultCase> {
    let shipped_names: Vec<&'static str> = SHIPPED_FILES.iter().cloned().filter(|f| is_ntv2_name(f) == ntv2 && *f != BIG_FILE).collect();
    let base = if ntv2 {
        prop_oneof![
            2 => (0..shipped_names.len()).prop_map({ let s = shipped_names.clone(); move |i| (s[i].to_string(), Src::Shipped(s[i].to_string())) }),
            3 => nt_case(5).prop_map(|c| (format!("generated NTv2, {} sub-grid(s)", c.spec.subs.len()), Src::Inline(c.bytes))),
        ]
        .boxed()
    } else {
        prop_oneof![
            2 => (0..shipped_names.len()).prop_map({ let s = shipped_names.clone(); move |i| (s[i].to_string(), Src::Shipped(s[i].to_string())) }),
            3 => grav_case(5).prop_map(|c| (format!("generated Gravsoft {}x{}x{}", c.spec.rows, c.spec.cols, c.spec.bands), Src::Inline(Hex(c.text.into_bytes())))),
        ]
        .boxed()
    };
    (base, prop::collection::vec(raw_fault(if ntv2 { NT_KINDS } else { GRAV_KINDS }), 1..=3)).prop_map(move |((label, src), rfs)| {
        let mut cur: Vec<u8> = (*src_bytes(&src).expect("base")).clone();
        let mut faults = vec![];
        for rf in &rfs {
            // offsets are resolved against the file as damaged so far
            let fs = if ntv2 { resolve_nt(&cur, rf) } else { resolve_grav(&cur, rf) };
            for f in fs {
                apply_fault(&mut cur, &f);
                faults.push(f);
            }
        }
        FaultCase { label, ntv2, src, faults }
    })
}

// =====================================================================================
// Sections
// =====================================================================================

#[derive(Clone, Debug, Serialize, Deserialize)]
struct TwinCase {
    file: String,
    /// "gsa": .gsb against its .gsa twin; "reader": against the harness' own binary/text reader;
    /// "gsa-be": the .gsa content re-encoded big endian by the harness
    mode: String,
}

fn check_twin(c: &TwinCase, rec: &mut Rec) -> CaseResult {
    let bytes = src_bytes(&Src::Shipped(c.file.clone())).map_err(|(key, msg)| Failure { key, msg })?;
    let ctx = format!("shipped file {} compared with {}", c.file, c.mode);
    let harness_err = |e: String| Failure { key: "harness-cannot-read-shipped".into(), msg: format!("{ctx}: {e}") };
    let st = if is_ntv2_name(&c.file) {
        let spec = match c.mode.as_str() {
            "reader" => nt_reference_read(&bytes).map_err(harness_err)?,
            _ => {
                let gsa = src_bytes(&Src::Shipped(c.file.replace(".gsb", ".gsa"))).map_err(|(key, msg)| Failure { key, msg })?;
                gsa_read(&String::from_utf8_lossy(&gsa)).map_err(harness_err)?
            }
        };
        if c.mode == "gsa-be" {
            let mut s2 = spec.clone();
            s2.big_endian = true;
            let b2 = nt_encode(&s2);
            check_nt_decode(&b2, &s2, false)
        } else {
            check_nt_decode(&bytes, &spec, false)
        }
    } else {
        let spec = grav_reference_read(&bytes).map_err(harness_err)?;
        check_grav_decode(&bytes, &spec, false)
    };
    match st {
        Ok(s) => {
            rec.class(&format!("{}:{}", c.mode, if is_ntv2_name(&c.file) { "ntv2" } else { "gravsoft" }));
            rec.count("nodes_checked", s.nodes_checked);
            rec.count("geometry_probes", s.probes);
            rec.metric("worst_value_rel_error", s.worst_rel);
            rec.nontrivial(&(c.file.clone(), c.mode.clone()));
            Ok(())
        }
        Err(e) => to_failure(Err(e), &ctx),
    }
}

fn selftest() {
    // the harness encoder reproduces the shipped binary files byte for byte from their ASCII twins,
    // and the harness binary reader agrees with the ASCII reader
    for f in ["geodesy/gsb/5458", "geodesy/gsb/5458_with_subgrid"] {
        let gsb = shipped()[&format!("{f}.gsb")].clone();
        let gsa = shipped()[&format!("{f}.gsa")].clone();
        let spec = gsa_read(&String::from_utf8_lossy(&gsa)).unwrap_or_else(|e| {
            eprintln!("harness self-test: cannot read {f}.gsa: {e}");
            std::process::exit(2)
        });
        let enc = nt_encode(&spec);
        if enc != *gsb {
            let at = enc.iter().zip(gsb.iter()).position(|(a, b)| a != b);
            eprintln!("harness self-test: encoder output differs from {f}.gsb (lengths {} / {}, first difference at {at:?})", enc.len(), gsb.len());
            std::process::exit(2);
        }
        let rd = nt_reference_read(&gsb).unwrap_or_else(|e| {
            eprintln!("harness self-test: binary reader fails on {f}.gsb: {e}");
            std::process::exit(2)
        });
        if rd != spec {
            eprintln!("harness self-test: binary reader and ASCII reader disagree on {f}");
            std::process::exit(2);
        }
    }
    // a token faults round trip: the tokenizer sees 6 + rows*cols*bands tokens in a shipped file
    let g = shipped()["geodesy/datum/test.datum"].clone();
    assert_eq!(grav_tokens(&g).len(), 6 + 5 * 9 * 2);
    assert!(!nt_name_cycle(&shipped()["geodesy/gsb/5458_with_subgrid.gsb"]));
}

fn hang_listed_as_known(root: &std::path::Path) -> bool {
    let mut found = false;
    for p in [root.join("known_findings.json"), root.join("known_findings.d").join("C15.json")] {
        let Ok(t) = std::fs::read_to_string(p) else { continue };
        let Ok(v) = serde_json::from_str::<serde_json::Value>(&t) else { continue };
        if let Some(l) = v.get("findings").and_then(|l| l.as_array()) {
            for e in l {
                if e["property"] == "C15" && e["status"] == "known" && e["key"] == HANG_KEY {
                    found = true;
                }
            }
        }
    }
    found
}

struct Base {
    label: String,
    ntv2: bool,
    src: Src,
    bytes: Arc<Vec<u8>>,
}

fn main() {
    let mut run = Run::init("C15");
    run.watchdog(Duration::from_secs(30), true);
    selftest();
    if hang_listed_as_known(&run.root) {
        // the class is excluded by construction after the regression replay has shown it once
        HANG_BUDGET.store(1, Ordering::SeqCst);
    }
    run.assume("well-formed Gravsoft: six header numbers lat_s<lat_n, lon_w<lon_e, spacing of either sign whose magnitude divides the extents, >= 2 rows and columns, rows from the north, columns from the west, 1-3 values per node, '#' comments, any whitespace/line layout, number spellings accepted by f64::from_str");
    run.assume("Gravsoft units as documented in Rumination 002 (gridshift) and the reader's comments: header degrees -> radians unless a bound exceeds 720 in magnitude (then nothing is converted); 2 values = (lat, lon) arc seconds delivered as (lon, lat) radians; 3 values = (n, e, u) mm/year delivered as (e, n, u) m/year");
    run.assume("well-formed NTv2: 11-record overview, SECONDS, sub-grids with whole-cell extents on an arc second lattice, >= 2 rows and columns, children aligned with parent cell lines, siblings not overlapping, unique names, parents may follow children in the file; either byte order; END record optional; padding bytes arbitrary");
    run.assume("NTv2 conventions: longitudes and longitude shifts positive west in the file, east positive in the API; first node record = south-east corner running west then north; at() = (lon shift, lat shift) radians; value checks only at points whose serving sub-grid is unambiguous under the documented 'northern/eastern edge belongs to the parent' rule (2e-6 rad clearance)");
    run.assume("values are compared with relative tolerance 1e-6 of the largest corner value (grids are stored as f32; up to three f32 roundings in the unit conversion)");
    run.assume("one-row / one-column grids, reversed bounds, NaN/inf header fields count as malformed input: the only demand is Err or safe queries");
    run.assume("allocation bound 64 x input + 1 MB on the peak of live bytes allocated by the decoding (resp. querying) thread and on every single request");
    run.assume("a panic under overflow-checks counts as a panic (the harness builds the library with overflow-checks on, as debug builds do)");

    let seed = run.seed;
    let thorough = run.is_thorough();

    // ---- 1/2: decode(encode(g)) = g ------------------------------------------------------
    run.track_inflight(false);
    let n = run.scale(6_000, 150_000);
    let side = if thorough { 20 } else { 12 };
    run.section(
        "gravsoft-roundtrip",
        "random grids (2..12 rows/cols, 1-3 bands; angular with bounds anywhere in [-720, 720] incl. exactly +-90, +-180, +-360, +-720, global 0..360 / -180..180 / -90..90, and bounds just beyond +-720; linear/projected with 0, 1, 2 or 3 of the four bounds within +-720 on either axis, incl. 0 and negative bounds) rendered in random layouts (comments incl. '#' glued to the preceding header number / node value / last value of the file, '#' followed directly by text or a number, '#' alone, comments containing '#'; line breaks placed independently of the content: structured (header split 1/2/3/6 lines, one row/node/value/5 values per line), whole file on one line, k numbers per line counted from the first header number (k = 1..n, 7), header + first row on one line, header ending mid-line, random breaks after any token; blank lines, CRLF, tabs, 8 number spellings, either sign of dlat/dlon, with/without final newline); non-trivial = every node value and all four edges verified; distinct by text",
        n,
        move || grav_case(side),
        |c: &GravCase, rec: &mut Rec| {
            let ctx = format!("Gravsoft file ({} bytes):\n{}", c.text.len(), c.text.chars().take(1200).collect::<String>());
            match check_grav_decode(c.text.as_bytes(), &c.spec, false) {
                Ok(s) => {
                    rec.class(&format!("bands{}-{}", c.spec.bands, if c.spec.angular() { "angular" } else { "linear" }));
                    {
                        let b = [c.spec.lat_s.0, c.spec.lat_n.0, c.spec.lon_w.0, c.spec.lon_e.0];
                        let kind = if c.spec.angular() { "angular" } else { "linear" };
                        for (v, name) in [(360.0, "360"), (720.0, "720"), (90.0, "90"), (180.0, "180")] {
                            if b.iter().any(|h| h.abs() == v) {
                                rec.class(&format!("{kind}-bound-exactly-+-{name}"));
                            }
                        }
                        if c.spec.angular() && b.iter().any(|h| h.abs() > 360.0 && h.abs() < 720.0) {
                            rec.class("angular-bound-between-360-and-720");
                        }
                        if b.iter().any(|h| h.abs() > 720.0 && h.abs() < 721.0) {
                            rec.class("linear-bound-just-beyond-720");
                        }
                        if c.spec.angular() && (b[2], b[3]) == (0.0, 360.0) {
                            rec.class("angular-global-lon-0..360");
                        }
                        if c.spec.angular() && (b[2], b[3]) == (-180.0, 180.0) {
                            rec.class("angular-global-lon--180..180");
                        }
                        if c.spec.angular() && (b[0], b[1]) == (-90.0, 90.0) {
                            rec.class("angular-global-lat--90..90");
                        }
                    }
                    if !c.spec.angular() {
                        let b = [c.spec.lat_s.0, c.spec.lat_n.0, c.spec.lon_w.0, c.spec.lon_e.0];
                        let inside = b.iter().filter(|h| h.abs() <= 720.).count();
                        rec.class(&format!("linear-{inside}-of-4-bounds-within-720-bands{}", c.spec.bands));
                        if b.iter().any(|h| *h == 0.0) {
                            rec.class("linear-with-zero-bound");
                        }
                        if b.iter().any(|h| *h < 0.0) {
                            rec.class("linear-with-negative-bound");
                        }
                        let lat_in = b[..2].iter().filter(|h| h.abs() <= 720.).count();
                        let lon_in = b[2..].iter().filter(|h| h.abs() <= 720.).count();
                        rec.class(&format!("linear-inside-lat{lat_in}-lon{lon_in}"));
                    }
                    if c.text.contains('\r') {
                        rec.class("layout-crlf");
                    }
                    if c.text.contains('#') {
                        rec.class("layout-comments");
                    }
                    if c.text.contains('\t') {
                        rec.class("layout-tabs");
                    }
                    {
                        // line layout classes, read off the text itself
                        let b = c.text.as_bytes();
                        let toks = grav_tokens(b);
                        let same_line = |i: usize, j: usize| !b[toks[i].1..toks[j].0].contains(&b'\n');
                        if same_line(5, 6) {
                            rec.class("lines-header-shares-line-with-values");
                        } else {
                            rec.class("lines-break-after-header");
                        }
                        if (0..5).any(|i| !same_line(i, i + 1)) {
                            rec.class("lines-header-split-over-lines");
                        }
                        if (0..5).any(|i| !same_line(i, i + 1)) && same_line(5, 6) {
                            rec.class("lines-header-split-and-ending-mid-line");
                        }
                        if same_line(0, toks.len() - 1) {
                            rec.class("lines-all-numbers-on-one-line");
                        }
                        let row = c.spec.cols * c.spec.bands;
                        if same_line(5, 6) && toks.len() > 6 + row && same_line(6, 5 + row) && !same_line(5 + row, 6 + row) {
                            rec.class("lines-header-plus-first-row");
                        }
                        if (0..toks.len() - 1).all(|i| same_line(i, i + 1) == ((i + 1) % 7 != 0)) {
                            rec.class("lines-seven-numbers-per-line");
                        }
                        if (0..toks.len() - 1).all(|i| !same_line(i, i + 1)) {
                            rec.class("lines-one-number-per-line");
                        }
                    }
                    {
                        // '#' glued to the preceding number: in the header, after a node value, at the very end
                        let b = c.text.as_bytes();
                        let toks = grav_tokens(b);
                        let glued = |k: usize| toks.get(k).map(|t| b.get(t.1) == Some(&b'#')).unwrap_or(false);
                        if (0..5).any(glued) {
                            rec.class("glued-comment-after-header-number");
                        }
                        if glued(5) {
                            rec.class("glued-comment-after-last-header-number");
                        }
                        if (6..toks.len().saturating_sub(1)).any(glued) {
                            rec.class("glued-comment-after-node-value");
                        }
                        if toks.len() > 6 && glued(toks.len() - 1) {
                            rec.class("glued-comment-after-last-value");
                        }
                        if c.text.contains("#2.5") {
                            rec.class("glued-comment-starting-with-number");
                        }
                        if c.text.lines().any(|l| l.trim() == "#") {
                            rec.class("line-of-hash-alone");
                        }
                        if c.text.contains("#a#b") || c.text.contains("####") {
                            rec.class("comment-containing-hashes");
                        }
                    }
                    if !c.text.ends_with('\n') {
                        rec.class("layout-no-final-newline");
                    }
                    rec.count("nodes_checked", s.nodes_checked);
                    rec.count("geometry_probes", s.probes);
                    rec.metric("worst_value_rel_error", s.worst_rel);
                    rec.nontrivial(&c.text);
                    Ok(())
                }
                Err(e) => to_failure(Err(e), &ctx),
            }
        },
    );

    let n = run.scale(6_000, 150_000);
    let maxsubs = if thorough { 9 } else { 6 };
    run.section(
        "ntv2-roundtrip",
        "random sub-grid trees (1..6 sub-grids, up to 3 roots anywhere in latitude [-80, 80] or touching +90 / -90 exactly or pole to pole, longitudes free or anchored exactly at -180, +180, 0, 360, 0..360, -180..180; children inherit these edges; children nested to any depth, cell-aligned, refinement 2-4x), random file order, both byte orders, with/without END record, zero or garbage padding; non-trivial = at least one node verified in every sub-grid; distinct by bytes",
        n,
        move || nt_case(maxsubs),
        |c: &NtCase, rec: &mut Rec| {
            let ctx = format!(
                "NTv2 file ({} bytes, {}), sub-grids in file order: {}",
                c.bytes.0.len(),
                if c.spec.big_endian { "big endian" } else { "little endian" },
                c.spec.subs.iter().map(|s| format!("{}<-{} [S {} N {} E {} W {} inc {} {} n={}]", s.name, s.parent, s.s_lat.0, s.n_lat.0, s.e_long.0, s.w_long.0, s.lat_inc.0, s.long_inc.0, s.nodes.len())).collect::<Vec<_>>().join(", ")
            );
            match check_nt_decode(&c.bytes.0, &c.spec, false) {
                Ok(s) => {
                    rec.class(if c.spec.big_endian { "big-endian" } else { "little-endian" });
                    rec.class(&format!("subgrids-{}", c.spec.subs.len().min(6)));
                    let roots = c.spec.subs.iter().filter(|s| s.parent == "NONE").count();
                    rec.class(&format!("roots-{roots}"));
                    let names: Vec<&String> = c.spec.subs.iter().map(|s| &s.name).collect();
                    if c.spec.subs.iter().enumerate().any(|(i, s)| s.parent != "NONE" && !names[..i].contains(&&s.parent)) {
                        rec.class("child-before-parent");
                    }
                    if c.spec.subs.iter().any(|s| c.spec.subs.iter().any(|p| p.name == s.parent && p.parent != "NONE")) {
                        rec.class("depth>=3");
                    }
                    for sub in &c.spec.subs {
                        let kind = if sub.parent == "NONE" { "root" } else { "child" };
                        if sub.n_lat.0 == 324000.0 {
                            rec.class(&format!("{kind}-north-edge-exactly-+90"));
                        }
                        if sub.s_lat.0 == -324000.0 {
                            rec.class(&format!("{kind}-south-edge-exactly--90"));
                        }
                        if sub.w_long.0 == 648000.0 || sub.e_long.0 == -648000.0 {
                            rec.class(&format!("{kind}-edge-exactly-+-180"));
                        }
                        if sub.e_long.0 == -1296000.0 {
                            rec.class(&format!("{kind}-east-edge-exactly-360"));
                        }
                        if sub.w_long.0 == 0.0 || sub.e_long.0 == 0.0 {
                            rec.class(&format!("{kind}-edge-on-greenwich"));
                        }
                        if sub.s_lat.0 == -324000.0 && sub.n_lat.0 == 324000.0 && (sub.w_long.0 - sub.e_long.0) == 1296000.0 {
                            rec.class(&format!("{kind}-global"));
                        }
                    }
                    rec.count("nodes_checked", s.nodes_checked);
                    rec.count("probes", s.probes);
                    rec.count("skipped_ambiguous_points", s.skipped_ambiguous);
                    rec.metric("worst_value_rel_error", s.worst_rel);
                    if s.nodes_checked > 0 {
                        rec.nontrivial(&c.bytes);
                    }
                    Ok(())
                }
                Err(e) => to_failure(Err(e), &ctx),
            }
        },
    );


    // ---- 2b: node values that formats and codes conventionally treat as special ---------------
    run.assume("no node value has a special meaning: neither the crate's documentation of the Gravsoft reader nor the NTv2 conventions it states define a nodata / unknown sentinel, so 9999, -9999, 99999, 32767, -32768, 1e30, f32::MAX, 0, -0 ... decode to themselves (after the unit conventions); values are f32 in memory: per-node tolerance 1e-6 relative + 1e-44 (f32 subnormal spacing, three roundings) + weight rounding x largest node within one cell; spellings that overflow f32 and NaN/inf literals are outside this claim (Err or safe query only)");
    let n_enum = SPECIALS.len() * GRAV_ENUM_PER_SPECIAL;
    run.enumerate(
        "gravsoft-special-values",
        "exhaustive cross product: each of 84 spellings of conventionally special numbers (0, -0, +-1, 9999 in ten spellings, -9999, 9998, 10000, 99999, 999999, 88888, 32767, -32768, 65535, 2^31-1, 1e10 .. 1e30, -1e34, 9.96921e36, f32::MAX in three spellings, f32::MIN_POSITIVE, subnormal f32, below-f32 values, many-digit and integer spellings) x position (first = NW corner, last = SE corner, NE, SW, north/south edge, west/east edge, interior) x (band, band count) in {1/1, 1/2, 2/2, 1/3, 2/3, 3/3} x angular/linear, in a 4 x 5 grid whose other nodes are of the same magnitude class; per-node tolerance; non-trivial = all nodes verified",
        n_enum,
        grav_special_enum,
        check_grav_special,
    );
    let n = run.scale(4_000, 100_000);
    run.section(
        "gravsoft-special-values-mixed",
        "random grids (geometry, bands and layouts as in gravsoft-roundtrip, 2..7 rows/cols) of one magnitude class (moderate+zero / tiny+zero / big / all mixed), special spellings sprinkled over the node values at density 0, 1/8, 1/2 or 1 and 1..4 more forced at drawn positions (corners, edges, interior, first, last) and bands; per-node tolerance; non-trivial = all nodes verified; distinct by text",
        n,
        grav_special_case,
        check_grav_special,
    );
    let n_enum = SPECIALS.len() * NT_ENUM_PER_SPECIAL;
    run.enumerate(
        "ntv2-special-values",
        "exhaustive cross product: each of the 84 special numbers (as f32) x node record column (lat shift, lon shift, lat accuracy, lon accuracy) x position (first record = SE corner, last = NW corner, other corners, edges, interior) x byte order x {root alone, root that has a child, the child}; other shifts of the same magnitude class; child before or after its parent, END record or not, zero/garbage padding; per-node tolerance; non-trivial = the special node itself is served by its own sub-grid and verified",
        n_enum,
        nt_special_enum,
        check_nt_special,
    );
    let n = run.scale(4_000, 100_000);
    run.section(
        "ntv2-special-values-mixed",
        "random sub-grid trees (as in ntv2-roundtrip, up to 4 sub-grids, both byte orders) whose node records are of one magnitude class, with special numbers sprinkled over all four columns at density 0, 1/8, 1/2 or 1 and 1..4 forced at drawn sub-grids, positions and columns; per-node tolerance; non-trivial = a forced special node is served by its own sub-grid; distinct by bytes",
        n,
        nt_special_case,
        check_nt_special,
    );
    {
        // NaN / inf / f32-overflowing literals as node values: Err or safe queries, nothing more
        let per = NONFINITE_TOKENS.len() * 7 * 6;
        run.enumerate(
            "gravsoft-nonfinite-node-values",
            "a 4 x 5 Gravsoft grid (angular and linear) with one node value replaced by NaN, inf, -inf, infinity (several spellings) or a number overflowing f32, at every position class and band; oracle: Err or a grid that answers contains/at everywhere without panic (the values delivered are not judged)",
            per * 2,
            move |i| {
                let (tok, j) = (NONFINITE_TOKENS[i % NONFINITE_TOKENS.len()], i / NONFINITE_TOKENS.len());
                let base = grav_special_enum((j % (7 * 6 * 2)) + GRAV_ENUM_PER_SPECIAL * 6); // fillers around "1"
                let h = &base.hots[0];
                let idx = 6 + (h.row * base.spec.cols + h.col) * base.spec.bands + h.band;
                FaultCase { label: format!("generated Gravsoft 4x5x{} with node value {tok}", base.spec.bands), ntv2: false, src: Src::Inline(Hex(base.text.into_bytes())), faults: vec![Fault::TokenReplace { idx, text: tok.to_string() }] }
            },
            check_fault_case,
        );
    }

    // ---- 3: shipped files ------------------------------------------------------------------
    let mut twins = vec![];
    for f in SHIPPED_FILES {
        if is_ntv2_name(f) {
            if f != "geodesy/gsb/100800401.gsb" {
                twins.push(TwinCase { file: f.to_string(), mode: "gsa".into() });
                twins.push(TwinCase { file: f.to_string(), mode: "gsa-be".into() });
            }
        }
        twins.push(TwinCase { file: f.to_string(), mode: "reader".into() });
    }
    let nt = twins.len();
    run.enumerate(
        "shipped-files",
        "every shipped grid file: .gsb against its .gsa twin (parsed by the harness), the twin re-encoded big endian, and every file against the harness' own reader; all nodes and edges",
        nt,
        move |i| twins[i].clone(),
        check_twin,
    );

    // ---- bases for the fault enumerations ---------------------------------------------------
    let mut bases: Vec<Base> = vec![];
    for f in SHIPPED_FILES {
        if f != BIG_FILE {
            bases.push(Base { label: f.to_string(), ntv2: is_ntv2_name(f), src: Src::Shipped(f.to_string()), bytes: shipped()[f].clone() });
        }
    }
    let nfix = if thorough { 8 } else { 3 };
    {
        // generated fixtures: NTv2 trees with >= 3 sub-grids, alternating byte order; Gravsoft of 1..3 bands
        let mut k = 0u64;
        let mut got = 0;
        while got < nfix && k < 400 {
            let c = vcore::engine::sample_one(&nt_case(5), seed.wrapping_add(k));
            k += 1;
            if c.spec.subs.len() >= 3 && c.spec.big_endian == (got % 2 == 1) && c.bytes.0.len() <= 12_000 {
                bases.push(Base { label: format!("generated NTv2 fixture #{got} ({} sub-grids, {})", c.spec.subs.len(), if c.spec.big_endian { "BE" } else { "LE" }), ntv2: true, bytes: Arc::new(c.bytes.0.clone()), src: Src::Inline(c.bytes) });
                got += 1;
            }
        }
        let mut got = 0;
        let mut k = 1000u64;
        while got < nfix && k < 1400 {
            let c = vcore::engine::sample_one(&grav_case(5), seed.wrapping_add(k));
            k += 1;
            if c.spec.bands == got % 3 + 1 && c.text.len() <= 4000 {
                let b = c.text.clone().into_bytes();
                bases.push(Base { label: format!("generated Gravsoft fixture #{got} ({}x{}x{})", c.spec.rows, c.spec.cols, c.spec.bands), ntv2: false, bytes: Arc::new(b.clone()), src: Src::Inline(Hex(b)) });
                got += 1;
            }
        }
    }
    let bases = Arc::new(bases);

    // ---- 4: every truncation length ------------------------------------------------------
    {
        let mut starts = vec![];
        let mut total = 0usize;
        for b in bases.iter() {
            starts.push(total);
            total += b.bytes.len() + 1;
        }
        let bs = bases.clone();
        run.enumerate(
            "truncations",
            "every truncation length 0..=len of every shipped file up to 64 kB and of the generated fixtures; non-trivial = cut strictly inside the file",
            total,
            move |i| {
                let k = match starts.binary_search(&i) {
                    Ok(k) => k,
                    Err(k) => k - 1,
                };
                let b = &bs[k];
                FaultCase { label: b.label.clone(), ntv2: b.ntv2, src: b.src.clone(), faults: vec![Fault::Truncate(i - starts[k])] }
            },
            check_fault_case,
        );
    }

    // ---- 5: truncations of the 2.8 MB deformation model -----------------------------------
    {
        let len = shipped()[BIG_FILE].len();
        let head = 400usize;
        let sampled = run.scale(160, 2000);
        run.sweep(
            "truncations-large-file",
            "the 2.8 MB deformation model: every cut in the first 400 bytes (header and first nodes), the last 64 bytes, and cut points sampled by a seeded multiplicative walk over the rest",
            head + 64 + sampled,
            move |i| {
                let cut = if i < head {
                    i
                } else if i < head + 64 {
                    len - (i - head)
                } else {
                    head + (((i as u64).wrapping_mul(0x9E3779B97F4A7C15).wrapping_add(seed.wrapping_mul(0xD1342543DE82EF95)) >> 11) as usize % (len - head))
                };
                FaultCase { label: BIG_FILE.into(), ntv2: false, src: Src::Shipped(BIG_FILE.into()), faults: vec![Fault::Truncate(cut)] }
            },
            check_fault_case,
        );
    }

    // ---- 6: every single-bit flip in header records -----------------------------------------
    {
        let mut sites: Vec<(usize, usize)> = vec![];
        for (k, b) in bases.iter().enumerate() {
            for (s, e) in header_ranges(b.ntv2, &b.bytes) {
                for at in s..e {
                    sites.push((k, at));
                }
            }
        }
        let bs = bases.clone();
        let n = sites.len() * 8;
        run.enumerate(
            "header-bitflips",
            "every single-bit flip in the NTv2 overview record and in every sub-grid header record (176 bytes each) of the shipped .gsb files and generated fixtures, and in the six-number header of every Gravsoft file",
            n,
            move |i| {
                let (k, at) = sites[i / 8];
                let b = &bs[k];
                FaultCase { label: b.label.clone(), ntv2: b.ntv2, src: b.src.clone(), faults: vec![Fault::BitFlip { byte: at, bit: (i % 8) as u8 }] }
            },
            check_fault_case,
        );
    }

    // ---- 7: Gravsoft header tokens (enumerated) ---------------------------------------------
    {
        let grav: Vec<usize> = (0..bases.len()).filter(|k| !bases[*k].ntv2).collect();
        // singles: 6 header positions x (menu + copies of the other header tokens); pairs: short menu
        let singles = 6 * (TOKEN_MENU.len() + 6);
        let pairs = 15 * TOKEN_MENU_SHORT.len() * TOKEN_MENU_SHORT.len();
        let extras = 120;
        let per = singles + pairs + extras;
        let bs = bases.clone();
        let g2 = grav.clone();
        run.enumerate(
            "gravsoft-header-tokens",
            "for every Gravsoft base file: each of the six header numbers replaced by each of 34 spellings (NaN, inf, 0, -0, overflow, denormal, non-numeric, huge, ...) or by a copy of another header number (equal bounds); every pair of header numbers replaced from a 14-item menu (zero/negative/NaN spacing with equal bounds etc.); 1..120 extra values appended",
            per * grav.len(),
            move |i| {
                let b = &bs[g2[i / per]];
                let j = i % per;
                let toks = grav_tokens(&b.bytes);
                let text = |k: usize| String::from_utf8_lossy(&b.bytes[toks[k].0..toks[k].1]).to_string();
                let faults = if j < singles {
                    let (idx, m) = (j % 6, j / 6);
                    let t = if m < TOKEN_MENU.len() { TOKEN_MENU[m].to_string() } else { text(m - TOKEN_MENU.len()) };
                    vec![Fault::TokenReplace { idx, text: t }]
                } else if j < singles + pairs {
                    let j = j - singles;
                    let ms = TOKEN_MENU_SHORT.len();
                    let (pair, m1, m2) = (j / (ms * ms), (j / ms) % ms, j % ms);
                    let mut pi = vec![];
                    for a in 0..6 {
                        for c in a + 1..6 {
                            pi.push((a, c));
                        }
                    }
                    let (a, c) = pi[pair];
                    // replace the later token first so that the earlier index stays valid
                    vec![Fault::TokenReplace { idx: c, text: TOKEN_MENU_SHORT[m2].into() }, Fault::TokenReplace { idx: a, text: TOKEN_MENU_SHORT[m1].into() }]
                } else {
                    vec![Fault::Append("1.25 ".repeat(j - singles - pairs + 1))]
                };
                FaultCase { label: b.label.clone(), ntv2: false, src: b.src.clone(), faults }
            },
            check_fault_case,
        );
    }

    // ---- 8/9: random multi-byte corruptions ---------------------------------------------------
    run.track_inflight(true);
    let n = run.scale(24_000, 800_000);
    run.section(
        "ntv2-corruptions",
        "shipped or freshly generated NTv2 file with 1-3 composed faults: random overwrites (anywhere / inside header records), special doubles (NaN, inf, 0, huge, tiny, equal bounds, negated) in extent and increment fields, count fields from a menu (0, 1, 2^31, 2^32-1, +-1, x2), name/parent fields copied onto each other or set to NONE/blank (cycles, orphans, duplicate names), truncation, deleted ranges/records/sub-grids, duplicated sub-grid blocks, consistently declared one-row/one-column and huge grids, bit flips, byte-order marker; non-trivial = damage inside a header record or a size change",
        n,
        || corrupt_case(true),
        check_fault_case,
    );
    let n = run.scale(12_000, 400_000);
    run.section(
        "gravsoft-corruptions",
        "shipped or freshly generated Gravsoft file with 1-3 composed faults: random byte overwrites (incl. invalid UTF-8), truncation, deleted ranges, inserted bytes, header/any token replaced from the menu of pathological spellings, deleted tokens, extra values, bit flips",
        n,
        || corrupt_case(false),
        check_fault_case,
    );

    run.finish("well-formed grids: harness encoders in all layouts and both byte orders, decode compared with the written specification through contains/at (every node, every outer edge), conventionally special node values (9999, -9999, 32767, 1e30, f32::MAX, 0, subnormals ... in many spellings) crossed exhaustively with band / NTv2 record column, position and byte order and compared per node, shipped .gsb against .gsa twins; damaged files: exhaustive truncations and header bit flips of all shipped files (sampled for the 2.8 MB model) and generated fixtures, enumerated Gravsoft header-token faults, random composed corruptions; oracle Err-or-safely-queryable under panic capture, allocation accounting and a 30 s watchdog");
}
