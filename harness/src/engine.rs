//! Generic engine: sharded proptest runs, exhaustive enumerations, replay,
//! known findings, evidence, supervision (abort / stack overflow / hang).
//!
//! Every random choice is made by proptest from a seed derived from
//! (VERIF_SEED, property, section, shard); no wall clock, no own RNG.

use proptest::strategy::{Strategy, ValueTree};
use proptest::test_runner::{Config, RngAlgorithm, TestCaseError, TestError, TestRng, TestRunner};
use rayon::prelude::*;
use serde::{de::DeserializeOwned, Serialize};
use serde_json::{json, Value};
use std::cell::{Cell, RefCell};
use std::collections::hash_map::DefaultHasher;
use std::collections::{BTreeMap, HashSet};
use std::hash::{Hash, Hasher};
use std::io::Write;
use std::path::{Path, PathBuf};
use std::sync::atomic::{AtomicBool, AtomicU64, Ordering};
use std::sync::Mutex;
use std::time::{Duration, Instant};

#[derive(Clone, Copy, Debug, PartialEq, Eq)]
pub enum Tier {
    Quick,
    Thorough,
}

/// A failed case: `key` is the stable signature used to match known findings,
/// `msg` is the human readable description.
#[derive(Clone, Debug)]
pub struct Failure {
    pub key: String,
    pub msg: String,
}
pub type CaseResult = Result<(), Failure>;

pub fn fail<T>(key: impl Into<String>, msg: impl Into<String>) -> Result<T, Failure> {
    Err(Failure {
        key: key.into(),
        msg: msg.into(),
    })
}

#[macro_export]
macro_rules! vfail {
    ($key:expr, $($arg:tt)*) => {
        return Err($crate::engine::Failure { key: ($key).to_string(), msg: format!($($arg)*) })
    };
}

#[macro_export]
macro_rules! vensure {
    ($cond:expr, $key:expr, $($arg:tt)*) => {
        if !($cond) {
            return Err($crate::engine::Failure { key: ($key).to_string(), msg: format!($($arg)*) });
        }
    };
}

/// Per-shard recorder handed to every oracle call.
#[derive(Default)]
pub struct Rec {
    pub(crate) evals: u64,
    pub(crate) classes: BTreeMap<String, u64>,
    pub(crate) nontrivial: HashSet<u64>,
    pub(crate) metrics: BTreeMap<String, f64>,
    pub(crate) counters: BTreeMap<String, u64>,
    pub(crate) samples: Vec<Value>,
    pub(crate) known_seen: BTreeMap<String, u64>,
    pub(crate) frozen: bool,
}

impl Rec {
    /// Count the case under a class label (histogram in the evidence).
    pub fn class(&mut self, c: &str) {
        if !self.frozen {
            *self.classes.entry(c.to_string()).or_insert(0) += 1;
        }
    }
    /// Mark the case non-trivial; `h` is its distinctness fingerprint.
    pub fn nontrivial<H: Hash>(&mut self, h: &H) {
        if !self.frozen {
            let mut s = DefaultHasher::new();
            h.hash(&mut s);
            self.nontrivial.insert(s.finish());
        }
    }
    /// Track the maximum of a named metric (e.g. worst round trip error).
    pub fn metric(&mut self, name: &str, v: f64) {
        if self.frozen || v.is_nan() {
            return;
        }
        let e = self.metrics.entry(name.to_string()).or_insert(f64::NEG_INFINITY);
        if v > *e {
            *e = v;
        }
    }
    /// Add to a named counter (e.g. excluded_known, sub-evaluations).
    pub fn count(&mut self, name: &str, n: u64) {
        if !self.frozen {
            *self.counters.entry(name.to_string()).or_insert(0) += n;
        }
    }
    fn merge(&mut self, o: Rec) {
        self.evals += o.evals;
        for (k, v) in o.classes {
            *self.classes.entry(k).or_insert(0) += v;
        }
        self.nontrivial.extend(o.nontrivial);
        for (k, v) in o.metrics {
            let e = self.metrics.entry(k).or_insert(f64::NEG_INFINITY);
            if v > *e {
                *e = v;
            }
        }
        for (k, v) in o.counters {
            *self.counters.entry(k).or_insert(0) += v;
        }
        for (k, v) in o.known_seen {
            *self.known_seen.entry(k).or_insert(0) += v;
        }
        for s in o.samples {
            if self.samples.len() < 6 {
                self.samples.push(s);
            }
        }
    }
}

#[derive(Clone, Debug, serde::Deserialize)]
pub struct KnownEntry {
    pub property: String,
    pub key: String,
    pub status: String, // "known" | "fixed"
    #[serde(default)]
    pub commit: Option<String>,
    #[serde(default)]
    pub replay: Option<String>,
    pub what: String,
}

struct SectionEvidence {
    name: String,
    rule: String,
    exhaustive: bool,
    rec: Rec,
    wall_s: f64,
}

pub struct Run {
    pub prop: String,
    pub tier: Tier,
    pub seed: u64,
    pub root: PathBuf,
    replay: Option<(PathBuf, Value)>,
    only: Option<String>,
    known: Vec<KnownEntry>,
    sections: Vec<SectionEvidence>,
    violations: Vec<(String, String, String)>, // (section, replay path, message)
    known_printed: HashSet<String>,
    assumptions: Vec<String>,
    t0: Instant,
    shards: usize,
    extra: BTreeMap<String, Value>,
    inflight: bool,
}

// ---- supervision state -------------------------------------------------------

const NSLOTS: usize = 64;
struct Slot {
    start_ms: AtomicU64, // 0 = idle
    case: Mutex<String>,
    section: Mutex<String>,
}
static SLOTS: once_slots::Slots = once_slots::Slots::new();
static WATCHDOG_MS: AtomicU64 = AtomicU64::new(120_000);
static HANG_IS_VIOLATION: AtomicBool = AtomicBool::new(false);
static EPOCH: Mutex<Option<Instant>> = Mutex::new(None);

mod once_slots {
    use super::*;
    pub struct Slots(std::sync::OnceLock<Vec<Slot>>);
    impl Slots {
        pub const fn new() -> Self {
            Slots(std::sync::OnceLock::new())
        }
        pub fn get(&self) -> &Vec<Slot> {
            self.0.get_or_init(|| {
                (0..NSLOTS)
                    .map(|_| Slot {
                        start_ms: AtomicU64::new(0),
                        case: Mutex::new(String::new()),
                        section: Mutex::new(String::new()),
                    })
                    .collect()
            })
        }
    }
}

fn now_ms() -> u64 {
    let g = EPOCH.lock().unwrap();
    g.map(|e| e.elapsed().as_millis() as u64 + 1).unwrap_or(1)
}

fn slot_index() -> usize {
    rayon::current_thread_index().map(|i| i + 1).unwrap_or(0) % NSLOTS
}

/// Known-finding match: exact, except that panic signatures may be listed by a prefix
/// (the text after the listed part is message payload).
pub fn key_matches(listed: &str, actual: &str) -> bool {
    listed == actual
        || (listed.contains("panic")
            && listed.contains('@')
            && listed.len().min(actual.len()) >= 24
            && (actual.starts_with(listed) || listed.starts_with(actual)))
}

fn splitmix(mut x: u64) -> u64 {
    x = x.wrapping_add(0x9E3779B97F4A7C15);
    let mut z = x;
    z = (z ^ (z >> 30)).wrapping_mul(0xBF58476D1CE4E5B9);
    z = (z ^ (z >> 27)).wrapping_mul(0x94D049BB133111EB);
    z ^ (z >> 31)
}

fn hash_str(s: &str) -> u64 {
    // FNV-1a: stable across runs and platforms (DefaultHasher is not guaranteed to be)
    let mut h: u64 = 0xcbf29ce484222325;
    for b in s.bytes() {
        h ^= b as u64;
        h = h.wrapping_mul(0x100000001b3);
    }
    h
}

fn seed_bytes(seed: u64, prop: &str, section: &str, shard: u64) -> [u8; 32] {
    let mut out = [0u8; 32];
    let mut x = splitmix(seed ^ hash_str(prop)) ^ splitmix(hash_str(section)) ^ splitmix(shard.wrapping_mul(0x51ED27));
    for i in 0..4 {
        x = splitmix(x);
        out[i * 8..i * 8 + 8].copy_from_slice(&x.to_le_bytes());
    }
    out
}

fn truncate_value(v: Value) -> Value {
    let s = v.to_string();
    if s.len() > 1500 {
        let mut cut = 1500;
        while !s.is_char_boundary(cut) {
            cut -= 1;
        }
        Value::String(format!("{}… ({} bytes)", &s[..cut], s.len()))
    } else {
        v
    }
}

impl Run {
    /// Parse the command line / environment, start the supervisor, install the
    /// panic hook. Usage of every check binary:
    ///   cNN [quick|thorough] [--replay <file>] [--only <section>]
    pub fn init(prop: &str) -> Run {
        let args: Vec<String> = std::env::args().collect();
        let root = PathBuf::from(std::env::var("VERIF_ROOT").unwrap_or_else(|_| "/verif".into()));
        if std::env::var("VHARNESS_CHILD").is_err() {
            supervise(prop, &root, &args);
        }
        *EPOCH.lock().unwrap() = Some(Instant::now());
        crate::guard::install_hook();

        let mut tier = match std::env::var("VERIF_TIER").as_deref() {
            Ok("thorough") => Tier::Thorough,
            _ => Tier::Quick,
        };
        let mut replay = None;
        let mut only = None;
        let mut i = 1;
        while i < args.len() {
            match args[i].as_str() {
                "quick" => tier = Tier::Quick,
                "thorough" => tier = Tier::Thorough,
                "--replay" => {
                    i += 1;
                    let p = PathBuf::from(&args[i]);
                    let txt = std::fs::read_to_string(&p).unwrap_or_else(|e| {
                        eprintln!("cannot read replay file {}: {e}", p.display());
                        std::process::exit(2)
                    });
                    let v: Value = serde_json::from_str(&txt).unwrap_or_else(|e| {
                        eprintln!("cannot parse replay file {}: {e}", p.display());
                        std::process::exit(2)
                    });
                    replay = Some((p, v));
                }
                "--only" => {
                    i += 1;
                    only = Some(args[i].clone());
                }
                other => {
                    eprintln!("unknown argument {other}");
                    std::process::exit(2)
                }
            }
            i += 1;
        }
        let seed: u64 = std::env::var("VERIF_SEED")
            .ok()
            .and_then(|s| s.trim().parse::<i128>().ok())
            .map(|v| v as u64)
            .unwrap_or(20260927);
        let shards: usize = std::env::var("VERIF_SHARDS")
            .ok()
            .and_then(|s| s.parse().ok())
            .unwrap_or(16);
        let threads: usize = std::env::var("VERIF_THREADS")
            .ok()
            .and_then(|s| s.parse().ok())
            .unwrap_or_else(|| std::thread::available_parallelism().map(|n| n.get()).unwrap_or(8));
        let _ = rayon::ThreadPoolBuilder::new()
            .num_threads(threads)
            .stack_size(16 << 20)
            .thread_name(|i| format!("shard-worker-{i}"))
            .build_global();

        let mut known: Vec<KnownEntry> = match std::fs::read_to_string(root.join("known_findings.json")) {
            Ok(t) => {
                let v: Value = serde_json::from_str(&t).unwrap_or_else(|e| {
                    eprintln!("known_findings.json does not parse: {e}");
                    std::process::exit(2)
                });
                let list = v.get("findings").cloned().unwrap_or(json!([]));
                let all: Vec<KnownEntry> = serde_json::from_value(list).unwrap_or_else(|e| {
                    eprintln!("known_findings.json has a bad entry: {e}");
                    std::process::exit(2)
                });
                all.into_iter().filter(|k| k.property == prop).collect()
            }
            Err(_) => vec![],
        };
        // development aid: per-property drafts in known_findings.d/<ID>.json (same format);
        // merged into known_findings.json before they count
        if let Ok(t) = std::fs::read_to_string(root.join("known_findings.d").join(format!("{prop}.json"))) {
            match serde_json::from_str::<Value>(&t).ok().and_then(|v| v.get("findings").cloned()).and_then(|l| serde_json::from_value::<Vec<KnownEntry>>(l).ok()) {
                Some(extra) => known.extend(extra.into_iter().filter(|k| k.property == prop)),
                None => {
                    eprintln!("known_findings.d/{prop}.json does not parse");
                    std::process::exit(2)
                }
            }
        }
        start_watchdog(prop.to_string(), root.clone());
        Run {
            prop: prop.to_string(),
            tier,
            seed,
            root,
            replay,
            only,
            known,
            sections: vec![],
            violations: vec![],
            known_printed: HashSet::new(),
            assumptions: vec![],
            t0: Instant::now(),
            shards,
            extra: BTreeMap::new(),
            inflight: true,
        }
    }

    /// quick / thorough amount of work
    pub fn scale(&self, quick: usize, thorough: usize) -> usize {
        // The quick counts in the check sources were sized on a heavily loaded machine;
        // on 16 free cores three times as much still finishes in 10-45 s per property.
        let base = match self.tier {
            Tier::Quick => quick.saturating_mul(3).min(thorough.max(quick)),
            Tier::Thorough => thorough,
        };
        // VERIF_SCALE lets long background campaigns multiply the work
        let m: f64 = std::env::var("VERIF_SCALE").ok().and_then(|s| s.parse().ok()).unwrap_or(1.0);
        ((base as f64) * m).max(1.0) as usize
    }

    pub fn is_thorough(&self) -> bool {
        self.tier == Tier::Thorough
    }

    pub fn assume(&mut self, s: &str) {
        self.assumptions.push(s.to_string());
    }

    /// Attach an extra key to the coverage object of the evidence.
    pub fn note(&mut self, key: &str, v: Value) {
        self.extra.insert(key.to_string(), v);
    }

    /// The watchdog limit for one case; `violation` says whether this
    /// property claims termination (otherwise a hang is "inconclusive", exit 2).
    pub fn watchdog(&self, per_case: Duration, violation: bool) {
        WATCHDOG_MS.store(per_case.as_millis() as u64, Ordering::SeqCst);
        HANG_IS_VIOLATION.store(violation, Ordering::SeqCst);
    }

    /// Record every case to an in-flight file before running it (default on), so that an
    /// abort / stack overflow can be attributed. Turn off for very cheap cases.
    pub fn track_inflight(&mut self, on: bool) {
        self.inflight = on;
    }

    fn is_known(&self, key: &str) -> Option<&KnownEntry> {
        self.known.iter().find(|k| k.status == "known" && key_matches(&k.key, key))
    }

    fn skip_section(&self, name: &str) -> bool {
        if let Some(o) = &self.only {
            if o != name {
                return true;
            }
        }
        false
    }

    fn write_replay<C: Serialize>(&self, section: &str, case: &C, f: &Failure) -> String {
        let case_v = serde_json::to_value(case).unwrap_or(Value::Null);
        let body = json!({
            "property": self.prop, "section": section, "key": f.key, "message": f.msg,
            "seed": self.seed, "tier": format!("{:?}", self.tier).to_lowercase(), "case": case_v,
        });
        let txt = serde_json::to_string_pretty(&body).unwrap();
        let h = hash_str(&txt);
        let dir = self.root.join("replays");
        let _ = std::fs::create_dir_all(&dir);
        let p = dir.join(format!("{}-{}-{:012x}.json", self.prop, section, h & 0xffff_ffff_ffff));
        let _ = std::fs::write(&p, txt);
        p.display().to_string()
    }

    fn report_violation<C: Serialize>(&mut self, section: &str, case: &C, f: &Failure) {
        let p = self.write_replay(section, case, f);
        println!("VIOLATION property={} replay={}", self.prop, p);
        println!("  section={} key={}", section, f.key);
        for l in f.msg.lines().take(30) {
            println!("  {l}");
        }
        self.violations.push((section.to_string(), p, f.msg.clone()));
    }

    fn print_known(&mut self, key: &str) {
        if self.known_printed.insert(key.to_string()) {
            if let Some(k) = self.is_known(key) {
                println!("KNOWN-FINDING: property={} {} [{}]", self.prop, k.what, k.key);
            }
        }
    }

    /// Replays of known/fixed entries and `--replay` for this section.
    /// Returns true if the section body must be skipped (replay mode).
    fn pre_section<C, F>(&mut self, name: &str, oracle: &F) -> bool
    where
        C: Serialize + DeserializeOwned + std::fmt::Debug,
        F: Fn(&C, &mut Rec) -> CaseResult,
    {
        if let Some((p, v)) = self.replay.clone() {
            if v.get("section").and_then(|s| s.as_str()) != Some(name) {
                return true;
            }
            let case: C = match serde_json::from_value(v.get("case").cloned().unwrap_or(Value::Null)) {
                Ok(c) => c,
                Err(e) => {
                    eprintln!("replay file {} does not decode for section {name}: {e}", p.display());
                    std::process::exit(2)
                }
            };
            let mut rec = Rec::default();
            let r = run_guarded(name, &case, oracle, &mut rec, true);
            match r {
                Ok(()) => println!("REPLAY-PASS property={} section={} file={}", self.prop, name, p.display()),
                Err(f) => {
                    if self.is_known(&f.key).is_some() {
                        self.print_known(&f.key.clone());
                        println!("REPLAY-KNOWN property={} section={} key={}", self.prop, name, f.key);
                    } else {
                        println!("VIOLATION property={} replay={}", self.prop, p.display());
                        println!("  section={} key={}", name, f.key);
                        for l in f.msg.lines().take(40) {
                            println!("  {l}");
                        }
                        self.violations.push((name.to_string(), p.display().to_string(), f.msg));
                    }
                }
            }
            return true;
        }
        // regression tier: replay files of listed findings that belong to this section
        let entries: Vec<KnownEntry> = self.known.iter().filter(|k| k.replay.is_some()).cloned().collect();
        for k in entries {
            let p = self.root.join(k.replay.as_ref().unwrap());
            let Ok(txt) = std::fs::read_to_string(&p) else { continue };
            let Ok(v) = serde_json::from_str::<Value>(&txt) else { continue };
            if v.get("section").and_then(|s| s.as_str()) != Some(name) {
                continue;
            }
            let Ok(case) = serde_json::from_value::<C>(v.get("case").cloned().unwrap_or(Value::Null)) else {
                eprintln!("warning: regression replay {} no longer decodes", p.display());
                continue;
            };
            let mut rec = Rec::default();
            let r = run_guarded(name, &case, oracle, &mut rec, true);
            match (k.status.as_str(), r) {
                ("fixed", Err(f)) => {
                    if self.is_known(&f.key).is_some() {
                        self.print_known(&f.key.clone());
                    } else {
                        println!("VIOLATION property={} replay={}", self.prop, p.display());
                        println!("  section={} key={} (regression of a fixed finding: {})", name, f.key, k.what);
                        for l in f.msg.lines().take(30) {
                            println!("  {l}");
                        }
                        self.violations.push((name.to_string(), p.display().to_string(), f.msg));
                    }
                }
                ("known", Err(f)) => {
                    if self.is_known(&f.key).is_some() {
                        self.print_known(&f.key.clone());
                    } else {
                        // a listed finding now fails differently: that is a new violation
                        println!("VIOLATION property={} replay={}", self.prop, p.display());
                        println!("  section={} key={} (listed under {})", name, f.key, k.key);
                        self.violations.push((name.to_string(), p.display().to_string(), f.msg));
                    }
                }
                _ => {}
            }
        }
        false
    }

    /// Random section: `cases` generated inputs, spread over shards, each shard
    /// an independent proptest runner with its own derived seed; a failure is
    /// shrunk by proptest and written as a replay file.
    pub fn section<C, S, MK, F>(&mut self, name: &str, rule: &str, cases: usize, mk: MK, oracle: F)
    where
        C: Serialize + DeserializeOwned + std::fmt::Debug + Clone + Send,
        S: Strategy<Value = C>,
        MK: Fn() -> S + Sync,
        F: Fn(&C, &mut Rec) -> CaseResult + Sync,
    {
        if self.skip_section(name) {
            return;
        }
        if self.pre_section::<C, F>(name, &oracle) {
            return;
        }
        let t = Instant::now();
        let shards = self.shards.min(cases.max(1));
        let per = (cases + shards - 1) / shards;
        let risky = self.inflight;
        let known_keys: HashSet<String> =
            self.known.iter().filter(|k| k.status == "known").map(|k| k.key.clone()).collect();
        let (prop, seed) = (self.prop.clone(), self.seed);
        let results: Vec<(Rec, Option<(C, Failure)>)> = (0..shards)
            .into_par_iter()
            .map(|sh| {
                let cfg = Config {
                    cases: per as u32,
                    failure_persistence: None,
                    max_shrink_iters: 4096,
                    max_global_rejects: 1 << 20,
                    max_local_rejects: 1 << 20,
                    ..Config::default()
                };
                let rng = TestRng::from_seed(RngAlgorithm::ChaCha, &seed_bytes(seed, &prop, name, sh as u64));
                let mut runner = TestRunner::new_with_rng(cfg, rng);
                let rec = RefCell::new(Rec::default());
                let failed = Cell::new(false);
                let last_fail: RefCell<Option<Failure>> = RefCell::new(None);
                let strat = mk();
                let res = runner.run(&strat, |case| {
                    let mut r = rec.borrow_mut();
                    if !failed.get() {
                        r.evals += 1;
                        if r.samples.len() < 3 && (r.evals == 1 || r.evals == (per as u64 / 2).max(2) || r.evals == per as u64) {
                            let v = serde_json::to_value(&case).unwrap_or(Value::Null);
                            r.samples.push(truncate_value(v));
                        }
                    }
                    r.frozen = failed.get();
                    match run_guarded(name, &case, &oracle, &mut r, risky) {
                        Ok(()) => Ok(()),
                        Err(f) => {
                            if known_keys.iter().any(|k| key_matches(k, &f.key)) {
                                if !failed.get() {
                                    r.frozen = false;
                                    *r.known_seen.entry(f.key.clone()).or_insert(0) += 1;
                                }
                                return Ok(());
                            }
                            failed.set(true);
                            let m = f.msg.clone();
                            *last_fail.borrow_mut() = Some(f);
                            Err(TestCaseError::fail(m))
                        }
                    }
                });
                let mut r = rec.into_inner();
                r.frozen = false;
                match res {
                    Ok(()) => (r, None),
                    Err(TestError::Fail(_, minimal)) => {
                        // re-run the minimal case to get its own failure record
                        let mut scratch = Rec::default();
                        let f = match run_guarded(name, &minimal, &oracle, &mut scratch, risky) {
                            Err(f) => f,
                            Ok(()) => last_fail.into_inner().unwrap_or(Failure {
                                key: "nondeterministic".into(),
                                msg: "minimal case passed when re-run".into(),
                            }),
                        };
                        (r, Some((minimal, f)))
                    }
                    Err(TestError::Abort(reason)) => {
                        eprintln!("section {name}: shard {sh} aborted: {reason} (generator rejects too much)");
                        r.count("aborted_shards", 1);
                        (r, None)
                    }
                }
            })
            .collect();
        let mut total = Rec::default();
        let mut seen_keys = HashSet::new();
        for (r, fail) in results {
            total.merge(r);
            if let Some((case, f)) = fail {
                if seen_keys.insert(f.key.clone()) {
                    self.report_violation(name, &case, &f);
                }
            }
        }
        let keys: Vec<String> = total.known_seen.keys().cloned().collect();
        for k in keys {
            self.print_known(&k);
        }
        self.sections.push(SectionEvidence {
            name: name.to_string(),
            rule: rule.to_string(),
            exhaustive: false,
            rec: total,
            wall_s: t.elapsed().as_secs_f64(),
        });
    }

    /// Exhaustive section: cases 0..n produced by `gen`, all of them run; the
    /// failing case of smallest index per failure key is reported (already minimal in
    /// enumeration order).
    pub fn enumerate<C, G, F>(&mut self, name: &str, rule: &str, n: usize, gen: G, oracle: F)
    where
        C: Serialize + DeserializeOwned + std::fmt::Debug + Clone + Send,
        G: Fn(usize) -> C + Sync,
        F: Fn(&C, &mut Rec) -> CaseResult + Sync,
    {
        self.enumerate_inner(name, rule, n, gen, oracle, true)
    }

    /// Like `enumerate` but the index space is only sampled/partial: not marked exhaustive.
    pub fn sweep<C, G, F>(&mut self, name: &str, rule: &str, n: usize, gen: G, oracle: F)
    where
        C: Serialize + DeserializeOwned + std::fmt::Debug + Clone + Send,
        G: Fn(usize) -> C + Sync,
        F: Fn(&C, &mut Rec) -> CaseResult + Sync,
    {
        self.enumerate_inner(name, rule, n, gen, oracle, false)
    }

    fn enumerate_inner<C, G, F>(&mut self, name: &str, rule: &str, n: usize, gen: G, oracle: F, exhaustive: bool)
    where
        C: Serialize + DeserializeOwned + std::fmt::Debug + Clone + Send,
        G: Fn(usize) -> C + Sync,
        F: Fn(&C, &mut Rec) -> CaseResult + Sync,
    {
        if self.skip_section(name) {
            return;
        }
        if self.pre_section::<C, F>(name, &oracle) {
            return;
        }
        let t = Instant::now();
        let known_keys: HashSet<String> =
            self.known.iter().filter(|k| k.status == "known").map(|k| k.key.clone()).collect();
        let inflight = self.inflight;
        let chunks = (self.shards * 8).min(n.max(1));
        let per = (n + chunks - 1) / chunks.max(1);
        let results: Vec<(Rec, BTreeMap<String, (usize, C, Failure)>)> = (0..chunks)
            .into_par_iter()
            .map(|ch| {
                let mut rec = Rec::default();
                let mut fails: BTreeMap<String, (usize, C, Failure)> = BTreeMap::new();
                let lo = ch * per;
                let hi = ((ch + 1) * per).min(n);
                for i in lo..hi {
                    let case = gen(i);
                    rec.evals += 1;
                    if rec.samples.is_empty() && (i == 0 || i == n / 2 || i + 1 == n) {
                        rec.samples.push(truncate_value(serde_json::to_value(&case).unwrap_or(Value::Null)));
                    }
                    match run_guarded(name, &case, &oracle, &mut rec, inflight) {
                        Ok(()) => {}
                        Err(f) => {
                            if known_keys.iter().any(|k| key_matches(k, &f.key)) {
                                *rec.known_seen.entry(f.key.clone()).or_insert(0) += 1;
                            } else if !fails.contains_key(&f.key) && fails.len() < 8 {
                                fails.insert(f.key.clone(), (i, case, f));
                            }
                        }
                    }
                }
                (rec, fails)
            })
            .collect();
        let mut total = Rec::default();
        let mut first: BTreeMap<String, (usize, C, Failure)> = BTreeMap::new();
        for (r, fails) in results {
            total.merge(r);
            for (k, v) in fails {
                match first.get(&k) {
                    Some(old) if old.0 <= v.0 => {}
                    _ => {
                        first.insert(k, v);
                    }
                }
            }
        }
        let mut ordered: Vec<(usize, C, Failure)> = first.into_values().collect();
        ordered.sort_by_key(|x| x.0);
        for (_, case, f) in ordered.into_iter().take(5) {
            self.report_violation(name, &case, &f);
        }
        let keys: Vec<String> = total.known_seen.keys().cloned().collect();
        for k in keys {
            self.print_known(&k);
        }
        self.sections.push(SectionEvidence {
            name: name.to_string(),
            rule: rule.to_string(),
            exhaustive,
            rec: total,
            wall_s: t.elapsed().as_secs_f64(),
        });
    }

    /// Write the evidence file and exit with the contractual status.
    pub fn finish(self, level_rule: &str) -> ! {
        let wall = self.t0.elapsed().as_secs_f64();
        if self.replay.is_some() {
            std::process::exit(if self.violations.is_empty() { 0 } else { 1 });
        }
        let mut evaluations = 0u64;
        let mut distinct = 0u64;
        let mut samples = vec![];
        let mut secs = vec![];
        let mut all_exhaustive = !self.sections.is_empty();
        for s in &self.sections {
            evaluations += s.rec.evals;
            distinct += s.rec.nontrivial.len() as u64;
            all_exhaustive &= s.exhaustive;
            for (i, sm) in s.rec.samples.iter().enumerate() {
                if i < 3 {
                    samples.push(json!({"section": s.name, "case": sm}));
                }
            }
            let metrics: BTreeMap<&String, Value> = s
                .rec
                .metrics
                .iter()
                .map(|(k, v)| (k, if v.is_finite() { json!(v) } else { json!(format!("{v}")) }))
                .collect();
            secs.push(json!({
                "section": s.name, "rule": s.rule, "exhaustive": s.exhaustive,
                "evaluations": s.rec.evals, "distinct_nontrivial": s.rec.nontrivial.len(),
                "classes": s.rec.classes, "worst": metrics, "counters": s.rec.counters,
                "known_findings_seen": s.rec.known_seen, "wall_s": (s.wall_s * 1000.0).round() / 1000.0,
            }));
        }
        let mut coverage = json!({
            "evaluations": evaluations,
            "distinct_nontrivial": distinct,
            "rule": level_rule,
            "samples": samples,
            "exhaustive": all_exhaustive,
            "sections": secs,
            "violating_sections": self.violations.iter().map(|v| json!({"section": v.0, "replay": v.1})).collect::<Vec<_>>(),
        });
        for (k, v) in &self.extra {
            coverage[k] = v.clone();
        }
        let ev = json!({
            "property_id": self.prop,
            "tier": if self.tier == Tier::Quick { "quick" } else { "thorough" },
            "seed": (self.seed & 0x7fff_ffff_ffff_ffff) as i64,
            "level": "exploration",
            "coverage": coverage,
            "assumptions": self.assumptions,
            "wall_s": (wall * 1000.0).round() / 1000.0,
            "violations": self.violations.len(),
        });
        if self.only.is_none() {
            let dir = std::env::var("VERIF_EVIDENCE_DIR").map(PathBuf::from).unwrap_or_else(|_| self.root.join("evidence"));
            let _ = std::fs::create_dir_all(&dir);
            let p = dir.join(format!("{}.json", self.prop));
            if let Err(e) = std::fs::write(&p, serde_json::to_string_pretty(&ev).unwrap()) {
                eprintln!("cannot write evidence {}: {e}", p.display());
                std::process::exit(2);
            }
        }
        println!(
            "{} {}: {} evaluations, {} distinct non-trivial, {} violation(s), {:.1} s",
            self.prop,
            if self.tier == Tier::Quick { "quick" } else { "thorough" },
            evaluations,
            distinct,
            self.violations.len(),
            wall
        );
        for s in &self.sections {
            println!(
                "  {:<28} evals={:<9} nontrivial={:<8} {:.1}s{}",
                s.name,
                s.rec.evals,
                s.rec.nontrivial.len(),
                s.wall_s,
                if s.exhaustive { " exhaustive" } else { "" }
            );
        }
        let _ = std::io::stdout().flush();
        std::process::exit(if self.violations.is_empty() { 0 } else { 1 });
    }
}

/// Run one oracle call with panic capture and in-flight bookkeeping.
fn run_guarded<C, F>(section: &str, case: &C, oracle: &F, rec: &mut Rec, record_inflight: bool) -> CaseResult
where
    C: Serialize + std::fmt::Debug,
    F: Fn(&C, &mut Rec) -> CaseResult,
{
    let slot = &SLOTS.get()[slot_index()];
    if record_inflight {
        if let Ok(mut c) = slot.case.try_lock() {
            c.clear();
            if let Ok(s) = serde_json::to_string(case) {
                c.push_str(&s);
            }
        }
        if let Ok(mut s) = slot.section.try_lock() {
            if *s != section {
                s.clear();
                s.push_str(section);
            }
        }
        crate::engine::inflight_write(slot_index(), section, &slot.case);
    }
    slot.start_ms.store(now_ms(), Ordering::SeqCst);
    let r = crate::guard::guard(|| oracle(case, rec));
    slot.start_ms.store(0, Ordering::SeqCst);
    match r {
        Ok(x) => x,
        Err(p) => Err(Failure {
            key: format!("harness-panic@{}", p.sig()),
            msg: format!("uncaught panic inside oracle (harness or library): {} at {}:{}", p.msg, p.file, p.line),
        }),
    }
}

// ---- in-flight files (for aborts / stack overflows that cannot be caught) -------

static INFLIGHT_DIR: Mutex<Option<PathBuf>> = Mutex::new(None);
thread_local! {
    static INFLIGHT_FILE: RefCell<Option<std::fs::File>> = const { RefCell::new(None) };
}

fn inflight_write(idx: usize, section: &str, case: &Mutex<String>) {
    use std::os::unix::fs::FileExt;
    INFLIGHT_FILE.with(|f| {
        let mut f = f.borrow_mut();
        if f.is_none() {
            let dir = INFLIGHT_DIR.lock().unwrap().clone();
            if let Some(dir) = dir {
                let p = dir.join(format!("slot-{idx}.json"));
                *f = std::fs::OpenOptions::new().create(true).write(true).truncate(true).open(p).ok();
            }
        }
        if let Some(file) = f.as_ref() {
            if let Ok(c) = case.try_lock() {
                let body = format!("{{\"section\":{},\"case\":{}}}\n", serde_json::to_string(section).unwrap(), &*c);
                let _ = file.set_len(0);
                let _ = file.write_all_at(body.as_bytes(), 0);
            }
        }
    });
}

fn start_watchdog(prop: String, root: PathBuf) {
    let dir = root.join("replays").join(format!(".inflight-{}-{}", prop, std::process::id()));
    if let Ok(d) = std::env::var("VHARNESS_INFLIGHT") {
        let d = PathBuf::from(d);
        let _ = std::fs::create_dir_all(&d);
        *INFLIGHT_DIR.lock().unwrap() = Some(d);
    } else {
        let _ = dir;
    }
    std::thread::Builder::new()
        .name("watchdog".into())
        .spawn(move || loop {
            std::thread::sleep(Duration::from_millis(250));
            let limit = WATCHDOG_MS.load(Ordering::SeqCst);
            let now = now_ms();
            for slot in SLOTS.get().iter() {
                let st = slot.start_ms.load(Ordering::SeqCst);
                if st != 0 && now > st && now - st > limit {
                    let section = slot.section.lock().map(|s| s.clone()).unwrap_or_default();
                    let case = slot.case.lock().map(|s| s.clone()).unwrap_or_default();
                    let violation = HANG_IS_VIOLATION.load(Ordering::SeqCst);
                    let case_v: Value = serde_json::from_str(&case).unwrap_or(Value::Null);
                    let body = json!({"property": prop, "section": section, "key": "hang",
                        "message": format!("case did not return within {limit} ms"), "case": case_v});
                    let txt = serde_json::to_string_pretty(&body).unwrap();
                    let p = root.join("replays").join(format!("{}-{}-hang-{:012x}.json", prop, section, hash_str(&txt) & 0xffff_ffff_ffff));
                    let _ = std::fs::create_dir_all(root.join("replays"));
                    let _ = std::fs::write(&p, txt);
                    if violation {
                        println!("VIOLATION property={} replay={}", prop, p.display());
                        println!("  section={section} key=hang: a case did not return within {limit} ms");
                        let _ = std::io::stdout().flush();
                        std::process::exit(1);
                    } else {
                        println!("INCONCLUSIVE property={} section={section}: a case exceeded the {limit} ms watchdog (case saved to {})", prop, p.display());
                        let _ = std::io::stdout().flush();
                        std::process::exit(2);
                    }
                }
            }
        })
        .expect("watchdog thread");
}

/// Parent side: run the real work in a child process so that aborts, stack
/// overflows and kills yield a replay file and a VIOLATION line.
fn supervise(prop: &str, root: &Path, args: &[String]) -> ! {
    let exe = std::env::current_exe().expect("current_exe");
    let dir = root.join("replays").join(format!(".inflight-{}-{}", prop, std::process::id()));
    let _ = std::fs::create_dir_all(&dir);
    let status = std::process::Command::new(&exe)
        .args(&args[1..])
        .env("VHARNESS_CHILD", "1")
        .env("VHARNESS_INFLIGHT", &dir)
        .status();
    let code = match status {
        Ok(s) => match s.code() {
            Some(c) => c,
            None => {
                // killed by a signal: find the culprit among the in-flight cases
                use std::os::unix::process::ExitStatusExt;
                let sig = s.signal().unwrap_or(0);
                eprintln!("check process died from signal {sig}; examining in-flight cases");
                if sig == 9 {
                    println!("INCONCLUSIVE property={prop}: killed (SIGKILL, out of memory or external stop)");
                    let _ = std::fs::remove_dir_all(&dir);
                    std::process::exit(2);
                }
                let mut culprit = None;
                if let Ok(rd) = std::fs::read_dir(&dir) {
                    let mut files: Vec<PathBuf> = rd.filter_map(|e| e.ok().map(|e| e.path())).collect();
                    files.sort();
                    for f in files {
                        let Ok(txt) = std::fs::read_to_string(&f) else { continue };
                        let Ok(v) = serde_json::from_str::<Value>(txt.trim()) else { continue };
                        let body = json!({"property": prop, "section": v["section"], "key": format!("abort-signal-{sig}"),
                            "message": format!("process died from signal {sig} while this case was in flight"), "case": v["case"]});
                        let txt = serde_json::to_string_pretty(&body).unwrap();
                        let p = root.join("replays").join(format!("{}-{}-abort-{:012x}.json", prop,
                            v["section"].as_str().unwrap_or("x"), hash_str(&txt) & 0xffff_ffff_ffff));
                        let _ = std::fs::write(&p, &txt);
                        // does this candidate kill a fresh process on its own?
                        let st = std::process::Command::new(&exe)
                            .arg("--replay").arg(&p)
                            .env("VHARNESS_CHILD", "1")
                            .stdout(std::process::Stdio::null())
                            .stderr(std::process::Stdio::null())
                            .status();
                        let died = matches!(st, Ok(s) if s.code().is_none());
                        if died {
                            culprit = Some(p);
                            break;
                        } else {
                            let _ = std::fs::remove_file(&p);
                        }
                    }
                }
                match culprit {
                    Some(p) => {
                        println!("VIOLATION property={prop} replay={}", p.display());
                        println!("  the process aborts (signal {sig}: stack overflow / abort) on this case");
                        let _ = std::fs::remove_dir_all(&dir);
                        std::process::exit(1);
                    }
                    None => {
                        println!("INCONCLUSIVE property={prop}: process died from signal {sig}, no single in-flight case reproduces it");
                        let _ = std::fs::remove_dir_all(&dir);
                        std::process::exit(2);
                    }
                }
            }
        },
        Err(e) => {
            eprintln!("cannot spawn child: {e}");
            2
        }
    };
    let _ = std::fs::remove_dir_all(&dir);
    std::process::exit(code);
}

/// Draw one value from a strategy with a fixed seed (for deterministic fixtures).
pub fn sample_one<S: Strategy>(s: &S, seed: u64) -> S::Value {
    let rng = TestRng::from_seed(RngAlgorithm::ChaCha, &seed_bytes(seed, "fixture", "fixture", 0));
    let mut runner = TestRunner::new_with_rng(Config::default(), rng);
    s.new_tree(&mut runner).expect("strategy").current()
}
