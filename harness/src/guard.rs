//! Panic capture: a silent hook that records message and location per thread.

use std::cell::RefCell;
use std::panic::{catch_unwind, AssertUnwindSafe};

#[derive(Clone, Debug)]
pub struct PanicInfo {
    pub msg: String,
    pub file: String,
    pub line: u32,
}

impl PanicInfo {
    /// Stable signature: source file + message with digits blanked
    pub fn sig(&self) -> String {
        let file = self.file.rsplit("/src/").next().unwrap_or(&self.file);
        // message up to the first double quote (what follows is usually user data), digits blanked
        let head = self.msg.split('"').next().unwrap_or("");
        let m: String = head.chars().take(80).map(|c| if c.is_ascii_digit() { '#' } else { c }).collect();
        let m = m.trim_end().to_string();
        format!("{file}:{m}")
    }
    /// true if the panic originated in the library under test (not the harness, not std)
    pub fn in_library(&self) -> bool {
        self.file.contains("/repo/") || self.file.starts_with("src/") || self.file.contains("geodesy")
    }
}

thread_local! {
    static LAST: RefCell<Option<PanicInfo>> = const { RefCell::new(None) };
    static DEPTH: std::cell::Cell<u32> = const { std::cell::Cell::new(0) };
}

pub fn install_hook() {
    std::panic::set_hook(Box::new(|info| {
        let msg = if let Some(s) = info.payload().downcast_ref::<&str>() {
            s.to_string()
        } else if let Some(s) = info.payload().downcast_ref::<String>() {
            s.clone()
        } else {
            "<non-string panic payload>".to_string()
        };
        let (file, line) = info.location().map(|l| (l.file().to_string(), l.line())).unwrap_or_default();
        if DEPTH.with(|d| d.get()) == 0 {
            eprintln!("harness panic outside any guard: {msg} at {file}:{line}");
        }
        LAST.with(|l| *l.borrow_mut() = Some(PanicInfo { msg, file, line }));
    }));
}

/// Run `f`; a panic becomes `Err(PanicInfo)`.
pub fn guard<T>(f: impl FnOnce() -> T) -> Result<T, PanicInfo> {
    LAST.with(|l| *l.borrow_mut() = None);
    DEPTH.with(|d| d.set(d.get() + 1));
    let r = catch_unwind(AssertUnwindSafe(f));
    DEPTH.with(|d| d.set(d.get() - 1));
    match r {
        Ok(v) => Ok(v),
        Err(_) => Err(LAST.with(|l| l.borrow_mut().take()).unwrap_or(PanicInfo {
            msg: "<panic without hook record>".into(),
            file: String::new(),
            line: 0,
        })),
    }
}
