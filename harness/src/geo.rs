//! Small helpers around the public geodesy API: serialisable floats, bitwise
//! comparison, guarded instantiate/apply, common strategies.

use crate::guard::{guard, PanicInfo};
use geodesy::prelude::*;
use proptest::prelude::*;
use serde::{Deserialize, Deserializer, Serialize, Serializer};

/// f64 that survives JSON (NaN, infinities and the NaN payload are kept).
#[derive(Clone, Copy, Debug, PartialEq)]
pub struct F(pub f64);

impl Serialize for F {
    fn serialize<S: Serializer>(&self, s: S) -> Result<S::Ok, S::Error> {
        if self.0.is_finite() && !(self.0 == 0.0 && self.0.is_sign_negative()) {
            s.serialize_f64(self.0)
        } else {
            s.serialize_str(&format!("bits:{:016x}", self.0.to_bits()))
        }
    }
}
impl<'de> Deserialize<'de> for F {
    fn deserialize<D: Deserializer<'de>>(d: D) -> Result<F, D::Error> {
        #[derive(Deserialize)]
        #[serde(untagged)]
        enum E {
            N(f64),
            S(String),
        }
        match E::deserialize(d)? {
            E::N(v) => Ok(F(v)),
            E::S(s) => {
                if let Some(h) = s.strip_prefix("bits:") {
                    u64::from_str_radix(h, 16).map(|b| F(f64::from_bits(b))).map_err(serde::de::Error::custom)
                } else {
                    s.parse::<f64>().map(F).map_err(serde::de::Error::custom)
                }
            }
        }
    }
}

pub type P4 = [F; 4];

pub fn p4(x: f64, y: f64, z: f64, t: f64) -> P4 {
    [F(x), F(y), F(z), F(t)]
}
pub fn c4(p: &P4) -> Coor4D {
    Coor4D([p[0].0, p[1].0, p[2].0, p[3].0])
}
pub fn to_p4(c: &Coor4D) -> P4 {
    [F(c[0]), F(c[1]), F(c[2]), F(c[3])]
}
pub fn c4s(ps: &[P4]) -> Vec<Coor4D> {
    ps.iter().map(c4).collect()
}

/// Bitwise equality with all NaNs identified.
pub fn bits_eq(a: f64, b: f64) -> bool {
    (a.is_nan() && b.is_nan()) || a.to_bits() == b.to_bits()
}
pub fn c4_bits_eq(a: &Coor4D, b: &Coor4D) -> bool {
    (0..4).all(|i| bits_eq(a[i], b[i]))
}
pub fn vec_bits_eq(a: &[Coor4D], b: &[Coor4D]) -> bool {
    a.len() == b.len() && a.iter().zip(b).all(|(x, y)| c4_bits_eq(x, y))
}
pub fn first_bits_diff(a: &[Coor4D], b: &[Coor4D]) -> Option<usize> {
    if a.len() != b.len() {
        return Some(a.len().min(b.len()));
    }
    a.iter().zip(b).position(|(x, y)| !c4_bits_eq(x, y))
}
pub fn fmt_c4(c: &Coor4D) -> String {
    format!("[{:?}, {:?}, {:?}, {:?}]", c[0], c[1], c[2], c[3])
}
/// distance in ulps between two finite doubles of equal sign (u64::MAX otherwise)
pub fn ulps(a: f64, b: f64) -> u64 {
    if bits_eq(a, b) || (a == 0.0 && b == 0.0) {
        return 0;
    }
    if !a.is_finite() || !b.is_finite() || (a.is_sign_negative() != b.is_sign_negative()) {
        return u64::MAX;
    }
    a.to_bits().abs_diff(b.to_bits())
}

/// Shortest decimal text that parses back to exactly `v` (no exponent).
pub fn num(v: f64) -> String {
    format!("{v}")
}

pub fn err_text(e: &geodesy::Error) -> String {
    format!("{e:?}")
}

/// `ctx.op(def)` with panic capture. Outer Err = panic.
pub fn try_op<C: Context>(ctx: &mut C, def: &str) -> Result<Result<OpHandle, geodesy::Error>, PanicInfo> {
    guard(|| ctx.op(def))
}

/// `ctx.apply` with panic capture. Outer Err = panic.
pub fn try_apply<C: Context>(
    ctx: &C,
    op: OpHandle,
    dir: Direction,
    data: &mut dyn CoordinateSet,
) -> Result<Result<usize, geodesy::Error>, PanicInfo> {
    guard(|| ctx.apply(op, dir, data))
}

pub fn dir_of(fwd: bool) -> Direction {
    if fwd {
        Fwd
    } else {
        Inv
    }
}

// ---- strategies ---------------------------------------------------------------

/// All f64 classes: NaN, infinities, zeros, subnormals, huge, ordinary, angles.
pub fn any_f64_class() -> impl Strategy<Value = F> {
    prop_oneof![
        4 => (-1.0e3f64..1.0e3).prop_map(F),
        3 => (-7.0e6f64..7.0e6).prop_map(F),
        2 => (-3.2f64..3.2).prop_map(F),
        1 => Just(F(f64::NAN)),
        1 => Just(F(f64::INFINITY)),
        1 => Just(F(f64::NEG_INFINITY)),
        1 => Just(F(0.0)),
        1 => Just(F(-0.0)),
        1 => Just(F(f64::MIN_POSITIVE / 8.0)),
        1 => Just(F(-f64::MIN_POSITIVE / 8.0)),
        1 => Just(F(1.0e300)),
        1 => Just(F(-1.0e300)),
        1 => Just(F(1.0e-300)),
        1 => Just(F(f64::MAX)),
        1 => Just(F(std::f64::consts::FRAC_PI_2)),
        1 => Just(F(-std::f64::consts::FRAC_PI_2)),
        1 => Just(F(std::f64::consts::PI)),
        1 => Just(F(-std::f64::consts::PI)),
        1 => Just(F(90.0)),
        1 => Just(F(-90.0)),
        1 => Just(F(180.0)),
        1 => Just(F(-180.0)),
        1 => any::<u64>().prop_map(|b| F(f64::from_bits(b))),
    ]
}

pub fn any_p4_class() -> impl Strategy<Value = P4> {
    [any_f64_class(), any_f64_class(), any_f64_class(), any_f64_class()]
}

/// Geographic coordinate in radians: (lon, lat, h, t) with lat in [-latmax, latmax] degrees.
pub fn geo_rad(latmax_deg: f64, lonmax_deg: f64) -> impl Strategy<Value = P4> {
    (
        -lonmax_deg..lonmax_deg,
        -latmax_deg..latmax_deg,
        prop_oneof![3 => Just(0.0f64), 2 => -1000.0f64..9000.0],
        prop_oneof![Just(0.0f64), 1990.0f64..2030.0],
    )
        .prop_map(|(lon, lat, h, t)| p4(lon.to_radians(), lat.to_radians(), h, t))
}

/// Monotone index mapping for shrinking-friendly selection: u16 -> 0..len
pub fn pick(i: u16, len: usize) -> usize {
    ((i as usize) * len) >> 16
}
