//! Entry points for the libFuzzer targets (crate /verif/fuzz). The semantic
//! oracle lives here so that the same code can be replayed without the fuzzer.
//!
//! A finding whose key is listed as `known` in known_findings.json is tolerated
//! in-target (otherwise a campaign rediscovers one crash forever); set
//! VFUZZ_STRICT=1 to disable the allow-list (replay of a single input).

use crate::guard::{guard, install_hook};
use geodesy::authoring::*;
use std::collections::HashSet;
use std::sync::OnceLock;

struct FuzzState {
    known: HashSet<String>,
    strict: bool,
}
static STATE: OnceLock<FuzzState> = OnceLock::new();

fn state() -> &'static FuzzState {
    STATE.get_or_init(|| {
        install_hook();
        let root = std::env::var("VERIF_ROOT").unwrap_or_else(|_| "/verif".into());
        let mut known = HashSet::new();
        if let Ok(t) = std::fs::read_to_string(format!("{root}/known_findings.json")) {
            if let Ok(v) = serde_json::from_str::<serde_json::Value>(&t) {
                for f in v["findings"].as_array().cloned().unwrap_or_default() {
                    if f["status"] == "known" {
                        if let Some(k) = f["key"].as_str() {
                            known.insert(k.to_string());
                        }
                    }
                }
            }
        }
        FuzzState { known, strict: std::env::var("VFUZZ_STRICT").is_ok() }
    })
}

/// Report a violation found inside a fuzz target: print the key and abort, so
/// that libFuzzer saves the input as an artifact.
fn violation(prop: &str, key: &str, msg: &str) {
    let st = state();
    if !st.strict && st.known.iter().any(|k| crate::engine::key_matches(k, key)) {
        return;
    }
    eprintln!("VFUZZ-VIOLATION property={prop} key={key}\n  {msg}");
    std::process::abort();
}

const PROBES: [[f64; 4]; 6] = [
    [0.2, 0.9, 10.0, 2020.0],
    [12.0, 55.0, 0.0, 0.0],
    [f64::NAN, 1.0, 2.0, 3.0],
    [f64::INFINITY, -1.0e300, 0.0, -0.0],
    [500000.0, 6100000.0, 100.0, 2000.5],
    [3.0e6, 1.0e6, 5.5e6, 1999.0],
];

/// Every built-in operator behind a registered macro, bare (`x:<op>`) and as a pipeline
/// body (`y:<op>`), so that invocation arguments reach the constructors through the
/// globals path as well as through step-local parameters.
fn wrap_builtins(c: &mut dyn Context) {
    for n in geodesy::verif_hooks::builtin_operator_names() {
        c.register_resource(&format!("x:{n}"), n);
        c.register_resource(&format!("y:{n}"), &format!("noop | {n}"));
    }
}

/// C09: arbitrary text through the tokenizer,
/// `parse_proj`, `Context::op` and `apply` never panics.
pub fn text_target(data: &[u8]) {
    let _ = state();
    // first byte selects context and a little structure, the rest is the text
    if data.is_empty() {
        return;
    }
    let sel = data[0];
    let text = String::from_utf8_lossy(&data[1..]).to_string();
    let r = guard(|| {
        // tokenizer surface
        let n = text.normalize();
        let _ = n.normalize();
        let _ = text.split_into_steps();
        let _ = text.split_into_parameters();
        let _ = text.operator_name();
        let _ = text.is_pipeline();
        let _ = text.is_resource_name();
        // PROJ translation (its semantic clauses are judged by proj_target)
        let p = parse_proj(&text);
        if let Ok(t) = &p {
            let _ = parse_proj(t);
        }
        // instantiate and apply
        let mut data: Vec<Coor4D> = PROBES.iter().map(|c| Coor4D(*c)).collect();
        let n = data.len();
        let mut check = |ctx: &mut dyn FnMut(&str, &mut Vec<Coor4D>) -> Option<(usize, usize)>| -> Option<(&'static str, String, String)> {
            if let Some((a, b)) = ctx(&text, &mut data) {
                if a > n || b > n {
                    return Some(("C09", "count-exceeds-len".to_string(), format!("{text:?}: counts {a},{b} for {n} tuples")));
                }
            }
            None
        };
        if sel % 2 == 0 {
            let mut c = Minimal::new();
            wrap_builtins(&mut c);
            check(&mut |t, d| {
                let op = c.op(t).ok()?;
                let a = c.apply(op, Fwd, d).ok()?;
                let b = c.apply(op, Inv, d).ok()?;
                Some((a, b))
            })
        } else {
            let mut c = crate::gridctx::GridCtx::new();
            c.register_resource("m:a", "addone | helmert x=$x(1) | m:b");
            c.register_resource("m:b", "cart ellps=$e(intl) | cart inv");
            c.register_resource("m:loop", "noop | m:loop");
            wrap_builtins(&mut c);
            check(&mut |t, d| {
                let op = c.op(t).ok()?;
                let a = c.apply(op, Fwd, d).ok()?;
                let b = c.apply(op, Inv, d).ok()?;
                Some((a, b))
            })
        }
    });
    match r {
        Ok(None) => {}
        Ok(Some((prop, key, msg))) => violation(prop, &key, &msg),
        Err(p) => {
            // same key scheme as the C09 check (apply/instantiate is not distinguished here)
            let key = format!("panic@{}", p.sig());
            violation("C09", &key, &format!("panic on text {:?}: {} at {}:{}", text, p.msg, p.file, p.line));
        }
    }
}

/// C15: arbitrary bytes as a Gravsoft text grid (first byte even) or an NTv2 binary grid
/// (first byte odd). Decoding yields Err or a grid whose queries return; never a panic.
/// Hangs and unbounded allocation are caught by libFuzzer itself (-timeout, -malloc_limit_mb).
pub fn grid_target(data: &[u8]) {
    let _ = state();
    if data.len() < 2 {
        return;
    }
    let ntv2 = data[0] % 2 == 1;
    let bytes = &data[1..];
    let r = guard(|| -> Option<(String, String)> {
        let grid: Box<dyn Grid> = if ntv2 {
            match Ntv2Grid::new(bytes) {
                Ok(g) => Box::new(g),
                Err(_) => return None,
            }
        } else {
            match BaseGrid::gravsoft(bytes) {
                Ok(g) => Box::new(g),
                Err(_) => return None,
            }
        };
        // query points: fixed specials plus a lattice derived from the tail of the input
        let mut qs: Vec<[f64; 2]> = vec![
            [0.0, 0.0], [0.2, 0.97], [-3.0, 1.5], [f64::NAN, 0.5], [0.5, f64::NAN], [f64::INFINITY, 0.0],
            [1.0e300, -1.0e300], [3.2, 1.6], [-3.2, -1.6],
        ];
        for w in bytes.rchunks(2).take(24) {
            let lon = (w[0] as f64 - 128.0) / 128.0 * std::f64::consts::PI;
            let lat = (*w.get(1).unwrap_or(&0) as f64 - 128.0) / 256.0 * std::f64::consts::PI;
            qs.push([lon, lat]);
        }
        let mut hits = 0usize;
        for q in qs {
            let c = Coor4D::raw(q[0], q[1], 0.0, 0.0);
            for margin in [0.0, 0.5] {
                let inside = grid.contains(&c, margin);
                let v = grid.at(&c, margin);
                if v.is_some() {
                    hits += 1;
                }
                if inside && v.is_none() && margin == 0.5 && !ntv2 {
                    // BaseGrid: `at` documents containment in the sense of `contains`
                    return Some(("contains-but-no-value".to_string(), format!("contains({q:?}, {margin}) is true but at() is None")));
                }
            }
        }
        let _ = (grid.bands(), hits);
        None
    });
    match r {
        Ok(None) => {}
        Ok(Some((key, msg))) => violation("C15", &key, &msg),
        Err(p) => {
            let key = format!("panic@{}", p.sig());
            violation("C15", &key, &format!("panic on {} grid bytes ({} bytes): {} at {}:{}", if ntv2 { "NTv2" } else { "Gravsoft" }, bytes.len(), p.msg, p.file, p.line));
        }
    }
}

/// C17: arbitrary text through `parse_proj`: text that is not PROJ syntax (no "proj" in it,
/// or a Geodesy pipeline with '|') passes through unchanged; a translated text holds no
/// PROJ '+' prefixes or 'step' keywords of its own making and instantiates (or is refused)
/// without panic in a Plain-like context. Never a panic.
pub fn proj_target(data: &[u8]) {
    let _ = state();
    let text = String::from_utf8_lossy(data).to_string();
    let r = guard(|| -> Option<(String, String)> {
        let p = parse_proj(&text);
        if text.contains('|') || !text.contains("proj") {
            match &p {
                Ok(t) if *t == text => {}
                other => return Some(("proj-passthrough".to_string(), format!("non-PROJ text {text:?} not passed through unchanged: {other:?}"))),
            }
        }
        if let Ok(t) = &p {
            let mut c = Minimal::new();
            if let Ok(op) = c.op(t) {
                let mut d: Vec<Coor4D> = PROBES.iter().map(|c| Coor4D(*c)).collect();
                let _ = c.apply(op, Fwd, &mut d);
                let _ = c.apply(op, Inv, &mut d);
            }
        }
        None
    });
    match r {
        Ok(None) => {}
        Ok(Some((key, msg))) => violation("C17", &key, &msg),
        Err(p) => violation("C17", &format!("panic@{}", p.sig()), &format!("panic on text {:?}: {} at {}:{}", text, p.msg, p.file, p.line)),
    }
}
