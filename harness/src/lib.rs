//! vcore: shared machinery for the property checks of busstoptaktik/geodesy.
pub mod engine;
pub mod fuzzing;
pub mod geo;
pub mod gridctx;
pub mod guard;
pub mod refmath;

pub use engine::{fail, CaseResult, Failure, Rec, Run, Tier};
