#!/usr/bin/env bash
# Run a tier of every check (or the listed ones) one after the other and print one summary line each.
#   tools/sweep.sh thorough [C01 C02 ...]
cd "$(dirname "$0")/.." || exit 2
TIER=${1:-quick}; shift
IDS=${*:-C01 C02 C03 C05 C06 C07 C08 C10 C11 C12 C13 C14 C16 C17 C18 C19 C20 C04 C09 C15}
mkdir -p sweep-logs
rc=0
for id in $IDS; do
  s=$(date +%s)
  ./check "$id" "$TIER" > "sweep-logs/$id-$TIER.log" 2>&1; e=$?
  echo "$id $TIER exit=$e violations=$(grep -c '^VIOLATION' sweep-logs/$id-$TIER.log) known=$(grep -c '^KNOWN-FINDING' sweep-logs/$id-$TIER.log) wall=$(( $(date +%s)-s ))s $(grep -E "^$id $TIER:" sweep-logs/$id-$TIER.log | head -1)"
  [ $e -ne 0 ] && rc=1
done
echo "SWEEP-DONE rc=$rc"
exit $rc
