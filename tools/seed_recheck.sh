#!/usr/bin/env bash
# Re-run a check against already verified seeds (patch applied in a scratch worktree; the demo and the
# repository tests are NOT re-run).  Appends to seeded/<seed>/verification.txt.
#   tools/seed_recheck.sh [-j N] <check id> <seed name> ...
cd "$(dirname "$0")/.." || exit 2
J=3; if [ "$1" = "-j" ]; then J=$2; shift 2; fi
ID=$1; shift
one() {
  ID=$1; n=$2; WT=/tmp/rc-$n-$ID; SCR=/tmp/rc-scratch-$n-$ID
  git -C /repo worktree remove --force "$WT" 2>/dev/null; rm -rf "$WT" "$SCR"
  git -C /repo worktree add -q --detach "$WT" HEAD || { echo "SEED $n: worktree failed"; return; }
  cp /repo/Cargo.lock "$WT/"
  if ! git -C "$WT" apply "/verif/seeded/$n/patch.diff" 2>/dev/null && ! git -C "$WT" apply --3way "/verif/seeded/$n/patch.diff" 2>/dev/null; then
    echo "SEED $n: PATCH-DOES-NOT-APPLY"; git -C /repo worktree remove --force "$WT"; return; fi
  ( VERIF_SCRATCH=$SCR VERIF_REPO=$WT timeout 2400 ./check $ID quick > /tmp/rc-$n-$ID.log 2>&1 ); st=$?
  { echo "== $(date -u +%FT%TZ) recheck, verif $(git rev-parse --short HEAD)"; echo "SEED $n: check $ID exit=$st $(grep -c '^VIOLATION' /tmp/rc-$n-$ID.log) violation line(s)"; grep -A1 "^VIOLATION" /tmp/rc-$n-$ID.log | head -4; } >> seeded/$n/verification.txt
  echo "SEED $n: check $ID exit=$st"
  git -C /repo worktree remove --force "$WT"; rm -rf "$SCR" /tmp/rc-$n-$ID.log
}
export -f one
printf '%s\n' "$@" | xargs -P "$J" -I{} bash -c "one $ID {}"
