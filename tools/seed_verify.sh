#!/usr/bin/env bash
# Verify a seeded change and run a check against it.
#   seed_verify.sh <seed dir, e.g. /tmp/seed-out/C11-a or /verif/seeded/C11-a> <check id> [more check ids...]
# 1. fresh worktree of /repo HEAD, demo passes without the patch
# 2. patch applies, repo tests pass, demo fails
# 3. ./check <id> quick with VERIF_REPO=<worktree> must exit 1
set -u
SEED=$1; shift
NAME=$(basename "$SEED")
WT=/tmp/sv-$NAME
SCR=/tmp/sv-scratch-$NAME
git -C /repo worktree remove --force "$WT" 2>/dev/null; rm -rf "$WT" "$SCR"
git -C /repo worktree add -q "$WT" HEAD || exit 2
cp /repo/Cargo.lock "$WT/"
demo="tests/seeded_$(echo $NAME | tr 'A-Z-' 'a-z_').rs"
cp "$SEED/demo.rs" "$WT/$demo"
res() { echo "SEED $NAME: $*"; }
( cd "$WT" && cargo test --offline --test "$(basename $demo .rs)" >/tmp/sv-$NAME-base.log 2>&1 ); base=$?
if ! git -C "$WT" apply "$SEED/patch.diff" 2>/tmp/sv-$NAME-apply.log; then
  if ! git -C "$WT" apply --3way "$SEED/patch.diff" 2>>/tmp/sv-$NAME-apply.log; then res "PATCH-DOES-NOT-APPLY (see /tmp/sv-$NAME-apply.log)"; exit 3; fi
fi
( cd "$WT" && cargo test --offline >/tmp/sv-$NAME-tests.log 2>&1 ); rm -f "$WT/$demo.tmp"
# repo tests: everything but the demo must pass
suite=$(grep -E "^test result" /tmp/sv-$NAME-tests.log | grep -vc " 0 failed")
demo_failed=$(grep -c "seeded.*FAILED\|test .* FAILED" /tmp/sv-$NAME-tests.log)
res "demo without patch exit=$base (0 expected); with patch: result lines with failures=$suite (1 expected: the demo only)"
grep -E "^test result|FAILED" /tmp/sv-$NAME-tests.log | head -8
rm "$WT/$demo"
for ID in "$@"; do
  ( cd /verif && VERIF_SCRATCH=$SCR VERIF_REPO=$WT timeout 1800 ./check $ID quick > /tmp/sv-$NAME-$ID.log 2>&1 ); st=$?
  res "check $ID exit=$st $(grep -c '^VIOLATION' /tmp/sv-$NAME-$ID.log) violation line(s)"
  grep -A2 "^VIOLATION" /tmp/sv-$NAME-$ID.log | head -9
done
git -C /repo worktree remove --force "$WT"; rm -rf "$SCR"
