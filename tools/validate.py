#!/usr/bin/env python3
import json, jsonschema, glob, sys
ok = True
jsonschema.validate(json.load(open('/verif/MANIFEST.json')), json.load(open('/root/.vp/MANIFEST.schema.json')))
sch = json.load(open('/root/.vp/EVIDENCE.schema.json'))
for f in sorted(glob.glob('/verif/evidence/*.json')):
    try:
        jsonschema.validate(json.load(open(f)), sch)
    except Exception as e:
        ok = False; print("INVALID", f, str(e)[:300])
json.load(open('/verif/known_findings.json'))
print("valid" if ok else "PROBLEMS"); sys.exit(0 if ok else 1)
