#!/usr/bin/env python3
"""stdin: `llvm-cov show` text.  stdout: per file the executable lines never executed (outside the
#[cfg(test)] module at the end of the file), grouped into ranges with their source text."""
import sys, re
cur = None; files = {}
for raw in sys.stdin:
    line = raw.rstrip('\n')
    m = re.match(r'^(/repo/src/\S+\.rs):$', line)
    if m:
        cur = m.group(1); files[cur] = []; continue
    m = re.match(r'^\s*(\d+)\|\s*([0-9.kMGE]*)\|(.*)$', line)
    if m and cur:
        n = int(m.group(1)); c = m.group(2); src = m.group(3)
        files[cur].append((n, c, src))
tot_exec = tot_miss = 0
for f in sorted(files):
    rows = files[f]
    cut = None
    for i, (n, c, src) in enumerate(rows):
        if re.match(r'\s*#\[cfg\(test\)\]', src) and i + 1 < len(rows) and re.match(r'\s*mod \w+', rows[i + 1][2]):
            cut = n; break
    if cut: rows = [r for r in rows if r[0] < cut]
    ex = [r for r in rows if r[1] != '']
    miss = [r for r in ex if r[1] == '0']
    tot_exec += len(ex); tot_miss += len(miss)
    if not ex: continue
    print("== %s: %d of %d executable lines never executed" % (f, len(miss), len(ex)))
    prev = None
    for n, c, src in miss:
        if prev is not None and n != prev + 1: print("   --")
        print("   %5d| %s" % (n, src)); prev = n
print("== TOTAL: %d of %d executable library lines never executed by the quick tier" % (tot_miss, tot_exec))
