#!/usr/bin/env bash
# Source-line coverage of /repo/src reached by the quick tier of the checks (development aid:
# shows which library code no generated case executes, i.e. where a broken property could hide).
#   tools/coverage.sh [C01 C02 ...]        -> coverage/summary.txt, coverage/uncovered.txt
# Builds an instrumented copy of the harness with the nightly toolchain into a scratch target
# directory under ${VERIF_SCRATCH:-/tmp} (removed at the end) and never touches evidence/.
set -u
ROOT=$(cd "$(dirname "$0")/.." && pwd)
IDS=${*:-C01 C02 C03 C04 C05 C06 C07 C08 C09 C10 C11 C12 C13 C14 C15 C16 C17 C18 C19 C20}
SCR=${VERIF_SCRATCH:-/tmp}/verif-cov-$$
TOOLS=$(dirname "$(find "$HOME/.rustup/toolchains/nightly-x86_64-unknown-linux-gnu" -name llvm-profdata | head -1)")
mkdir -p "$SCR/prof" "$SCR/evidence" "$ROOT/coverage"
export CARGO_NET_OFFLINE=true VERIF_ROOT="$ROOT" VERIF_REPO_DIR=/repo VERIF_EVIDENCE_DIR="$SCR/evidence"
BINS=""; for id in $IDS; do BINS="$BINS --bin $(echo $id | tr A-Z a-z)"; done
( cd "$ROOT/harness" && RUSTFLAGS="-C instrument-coverage" cargo +nightly build --release --offline --target-dir "$SCR/target" $BINS ) >"$SCR/build.log" 2>&1 || { tail -30 "$SCR/build.log"; exit 2; }
( cd /repo && cargo build --offline --bin kp --target-dir "$ROOT/harness/target/kp" ) >/dev/null 2>&1
export VERIF_KP="$ROOT/harness/target/kp/debug/kp"
OBJ=""
for id in $IDS; do
  b=$(echo $id | tr A-Z a-z)
  VERIF_SCALE=${COV_SCALE:-0.1} LLVM_PROFILE_FILE="$SCR/prof/$b-%p-%m.profraw" "$SCR/target/release/$b" quick >"$SCR/$b.log" 2>&1
  echo "$id exit=$? $(grep -E "^$id quick:" "$SCR/$b.log" | head -1)"
  OBJ="$OBJ -object $SCR/target/release/$b"
  "$TOOLS/llvm-profdata" merge -sparse "$SCR"/prof/$b-*.profraw -o "$SCR/$b.profdata" && rm -f "$SCR"/prof/$b-*.profraw
done
"$TOOLS/llvm-profdata" merge -sparse "$SCR"/*.profdata -o "$SCR/all.profdata"
OBJ=${OBJ# -object }
"$TOOLS/llvm-cov" report -instr-profile "$SCR/all.profdata" $OBJ /repo/src 2>/dev/null | grep -E '^(Filename|/repo/src|[a-z_/0-9]+\.rs|TOTAL|-)' > "$ROOT/coverage/summary.txt"
"$TOOLS/llvm-cov" show -instr-profile "$SCR/all.profdata" $OBJ /repo/src -show-line-counts-or-regions=false -show-instantiations=false 2>/dev/null \
  | python3 "$ROOT/tools/uncovered.py" > "$ROOT/coverage/uncovered.txt"
tail -3 "$ROOT/coverage/summary.txt"
rm -rf "$SCR"; rm -f /repo/default_*.profraw /verif/default_*.profraw /verif/harness/default_*.profraw   # strays of un-named profiles
