#!/usr/bin/env bash
# One libFuzzer campaign for a target of /verif/fuzz, with the semantic oracle inside the target.
#   fuzz_campaign.sh <property> <target> <runs> <max_len>
# stdout: "VIOLATION property=<id> replay=<artifact>" and exit 1 when the target reports a
# violation (or crashes); exit 0 when the campaign ends clean; exit 2 for build problems.
# The campaign is pinned only approximately (-seed, -runs, fresh corpus); the saved
# artifact is the reproducible unit: ./check <ID> --replay <artifact>.
set -u
PROP=$1; TARGET=$2; RUNS=$3; MAXLEN=$4
ROOT=${VERIF_ROOT:-/verif}
FZ="${VERIF_FUZZ_DIR:-$ROOT/fuzz}"
SEED=$(( (${VERIF_SEED:-20260927} % 2147483000) + 1 ))
JOBS=${VERIF_FUZZ_JOBS:-16}
export VERIF_ROOT="$ROOT"
LOG=$(mktemp)
if ! (cd "$FZ" && cargo +nightly fuzz build --fuzz-dir . "$TARGET" >"$LOG" 2>&1); then
  echo "BUILD-FAILED property=$PROP fuzz target $TARGET"; tail -30 "$LOG"; rm -f "$LOG"; exit 2
fi
CORPUS=$(mktemp -d)
mkdir -p "$ROOT/replays"
PREFIX="$ROOT/replays/fuzz-$TARGET-"
before=$(ls "$PREFIX"* 2>/dev/null | sort)
BINARY="$FZ/target/x86_64-unknown-linux-gnu/release/$TARGET"
if [ ! -x "$BINARY" ]; then echo "BUILD-FAILED property=$PROP no binary $BINARY"; rm -rf "$LOG" "$CORPUS"; exit 2; fi
# JOBS independent libFuzzer processes (own corpus, own seed, RUNS/JOBS executions each):
# the campaign explores JOBS different mutation trajectories from the same starting corpus
PER=$(( (RUNS + JOBS - 1) / JOBS ))
pids=()
for j in $(seq 0 $((JOBS-1))); do
  mkdir -p "$CORPUS/$j"
  ( cd "$FZ" && "$BINARY" "$CORPUS/$j" "seeds/$TARGET" -runs="$PER" -seed=$((SEED + j)) -max_len="$MAXLEN" -len_control=0 \
      -timeout=60 -rss_limit_mb=4096 -artifact_prefix="$PREFIX" -print_final_stats=1 >"$LOG.$j" 2>&1 ) &
  pids+=($!)
done
status=0
for p in "${pids[@]}"; do wait "$p" || status=$?; done
cat "$LOG".[0-9]* > "$LOG" 2>/dev/null
after=$(ls "$PREFIX"* 2>/dev/null | sort)
new=$(comm -13 <(echo "$before") <(echo "$after") | head -1)
execs=$(grep -ho "stat::number_of_executed_units: [0-9]*" "$LOG".[0-9]* | grep -o "[0-9]*$" | paste -sd+ | bc)
cov=$(for f in "$LOG".[0-9]*; do grep -o "cov: [0-9]*" "$f" | tail -1 | grep -o "[0-9]*"; done | sort -n | tail -1)
corp=$(find "$CORPUS" -type f | wc -l)
rm -f "$LOG".[0-9]*
echo "fuzz $TARGET: jobs=$JOBS executions=${execs:-?} coverage_edges=${cov:-?} corpus=$corp exit=$status seed=$SEED"
# merge the campaign statistics into the evidence file of the property
EV="${VERIF_EVIDENCE_DIR:-$ROOT/evidence}/$PROP.json"
if [ -f "$EV" ]; then
python3 - "$EV" "$TARGET" "${execs:-0}" "${cov:-0}" "$corp" "$status" "$SEED" <<'PY'
import json, sys
ev, target, execs, cov, corp, status, seed = sys.argv[1:]
d = json.load(open(ev))
f = d["coverage"].setdefault("fuzz_campaigns", [])
f.append({"target": target, "engine": "libFuzzer (cargo-fuzz build, independent parallel jobs with seeds seed..seed+jobs-1)", "executions": int(execs), "coverage_edges": int(cov),
          "corpus_files": int(corp), "exit_status": int(status), "seed": int(seed)})
d["coverage"]["evaluations"] = d["coverage"].get("evaluations", 0) + int(execs)
json.dump(d, open(ev, "w"), indent=1)
PY
fi
rm -rf "$CORPUS"
if [ -n "$new" ]; then
  echo "VIOLATION property=$PROP replay=$new"
  grep -A2 "VFUZZ-VIOLATION" "$LOG" | head -6
  grep -E "ERROR: (libFuzzer|AddressSanitizer)" "$LOG" | head -3
  rm -f "$LOG"; exit 1
fi
if [ $status -ne 0 ]; then
  echo "INCONCLUSIVE property=$PROP fuzz target $TARGET exited with $status without an artifact"; tail -20 "$LOG"; rm -f "$LOG"; exit 2
fi
rm -f "$LOG"; exit 0
