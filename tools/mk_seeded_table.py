#!/usr/bin/env python3
"""Regenerate the table of seeded changes in DESIGN.md and seeded/<id>/meta.json 'verified_by_coordinator'."""
import json, glob, os, re
ROOT="/verif"
rows=[]
for d in sorted(glob.glob(f"{ROOT}/seeded/*/")):
    name=os.path.basename(d.rstrip('/'))
    try: meta=json.load(open(d+"meta.json"))
    except Exception: meta={}
    ver=open(d+"verification.txt").read() if os.path.exists(d+"verification.txt") else ""
    checks=re.findall(r"check (C\d+) exit=(\d+)", ver)
    caught=[c for c,e in checks if e=="1"]; missed=[c for c,e in checks if e=="0"]
    # later runs supersede earlier ones of the same check
    last={}
    for c,e in checks: last[c]=e
    caught=[c for c,e in last.items() if e=="1"]; missed=[c for c,e in last.items() if e!="1"]
    summ=(meta.get("summary") or "").replace("|","/").replace("\n"," ")
    files=", ".join(os.path.basename(f) for f in meta.get("files",[]))[:60]
    rows.append(f"| {name} | {files} | {summ[:230]} | {', '.join(caught) or '—'} | {', '.join(missed) or '—'} |")
    meta["property"]=meta.get("property",name.split('-')[0])
    meta["verified_by_coordinator"]={"how":"tools/seed_verify.sh: fresh worktree of /repo HEAD; demo passes without the patch; patch applied: repository tests pass, demo fails; then ./check <ID> quick with VERIF_REPO=<worktree>",
        "checks_that_report_a_violation":caught,"checks_that_stay_silent":missed,"raw":ver.strip().splitlines()[:12]}
    json.dump(meta,open(d+"meta.json","w"),indent=1,ensure_ascii=False)
table="| seed | files | change | caught by | silent |\n|---|---|---|---|---|\n"+"\n".join(rows)+"\n"
p=f"{ROOT}/DESIGN.md"; s=open(p).read()
if "__SEED_TABLE__" in s:
    s=s.replace("__SEED_TABLE__","<!-- SEED-TABLE-BEGIN -->\n"+table+"<!-- SEED-TABLE-END -->")
else:
    s=re.sub(r"<!-- SEED-TABLE-BEGIN -->.*?<!-- SEED-TABLE-END -->","<!-- SEED-TABLE-BEGIN -->\n"+table.replace("\\","\\\\")+"<!-- SEED-TABLE-END -->",s,flags=re.S)
open(p,"w").write(s)
print(len(rows),"seeds;", sum(1 for r in rows if r.split('|')[4].strip()!='—'),"caught")
