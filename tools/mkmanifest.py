#!/usr/bin/env python3
"""Regenerate /verif/MANIFEST.json from the table below (keeps it schema-valid)."""
import json, os, subprocess
ROOT = os.path.dirname(os.path.dirname(os.path.abspath(__file__)))

# id -> (technique, level text, level note, design ref)
CHECKS = {}
def add(i, technique, text, note, ref=None):
    CHECKS[i] = (technique, text, note, ref or f"DESIGN.md section 4, {i}")

def more(i, text="", note="", technique=""):
    """Append sentences to an entry (later strengthening rounds)."""
    t, x, n, r = CHECKS[i]
    CHECKS[i] = (t + ("; " + technique if technique else ""), (x + " " + text).strip(), (n + " " + note).strip(), r)

exec(open(os.path.join(ROOT, "tools", "checks_table.py")).read())

props = [json.loads(l) for l in open(os.path.join(ROOT, "properties.jsonl"))]
hooks_commits = subprocess.run(["git", "-C", "/repo", "log", "--format=%h %s", "--grep=verif_hooks"],
                               capture_output=True, text=True).stdout.strip().splitlines()
man = {
    "version": 1,
    "setup_cmd": "./setup.sh",
    "hooks": {
        "guard": "cargo feature verif_hooks (off by default)",
        "enable": "harness/Cargo.toml depends on geodesy = { path = \"/repo\", features = [\"with_plain\", \"verif_hooks\"] }; every ./check rebuilds it from /repo's working tree",
        "baseline_off_cmd": "cd /repo && cargo test --workspace --no-fail-fast --offline",
        "source_commits": [c.split()[0] for c in hooks_commits],
        "add_only": True,
    },
    "engines": [
        {"name": "vcore", "path": "harness/src", "serves_properties": sorted(CHECKS),
         "kind_free_text": "proptest 1.11 driven from binaries (sharded TestRunner, fixed seeds derived from VERIF_SEED, shrinking, JSON replay files), exhaustive enumeration of finite domains, reference models and oracles, panic/abort/hang supervision, evidence writer"},
    ],
    "checks": [],
    "not_applicable": [],
    "notes": "Technique family: property-based testing and fuzzing only. Exit 0 = held (possibly KNOWN-FINDING lines), 1 = VIOLATION line, 2 = build failure / inconclusive. known_findings.json lists repaired (fixed) and recorded (known) defects.",
}
if os.path.isdir(os.path.join(ROOT, "fuzz")):
    man["engines"].append({"name": "libfuzzer", "path": "fuzz", "serves_properties": ["C09", "C15", "C17"],
        "kind_free_text": "cargo-fuzz / libFuzzer targets with the semantic oracle inside the target (thorough tier)"})
for p in props:
    i = p["id"]
    if i in CHECKS:
        tech, text, note, ref = CHECKS[i]
        man["checks"].append({
            "property_id": i,
            "quick_cmd": f"./check {i} quick",
            "thorough_cmd": f"./check {i} thorough",
            "evidence_file": f"evidence/{i}.json",
            "replay_cmd_template": f"./check {i} --replay {{path}}",
            "engine": "vcore",
            "level_claimed": {"category": "exploration", "text": text, "design_ref": ref},
            "level_note": note,
            "technique": tech,
        })
    else:
        man["not_applicable"].append({"property_id": i, "reason": "check not built yet (work in progress in this session); the technique applies, see DESIGN.md section 4"})
json.dump(man, open(os.path.join(ROOT, "MANIFEST.json"), "w"), indent=1)
print("claimed:", sorted(CHECKS), "unclaimed:", [p["id"] for p in props if p["id"] not in CHECKS])
