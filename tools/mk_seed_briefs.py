#!/usr/bin/env python3
"""Write one brief per (property, kind letter) for an independent seeder sub-agent.

    tools/mk_seed_briefs.py <round tag> <letter>=<kind key> [<letter>=<kind key> ...]

The brief contains ONLY the text of the property, the scratch worktree to work in, the kind of
change asked for and the list of source locations earlier seeds already used (so that a new
seed lands somewhere else).  Nothing about the checks in /verif goes into it.
Briefs land in /tmp/seedbrief/<ID>-<letter>.md, worktrees are /tmp/<round tag>-<ID>-<letter>.
"""
import json, sys, os, glob, collections

KINDS = {
 "free": """Your choice.  Assume the property is guarded by a strong generated-input test suite written by someone
who knows the property text but not your change.  Pick the kind of change you judge HARDEST for such a
suite to notice while still being a clear, demonstrable violation of the property as written: think of
what a generator is unlikely to produce (a particular relation between several parameters, a particular
sequence, a structure of a particular size, an input at an exact boundary, a rarely used but documented
feature), or of what an oracle is unlikely to compare (an absolute value where only relations are
usually checked, an output element usually ignored, a count, an error kind).  Say in meta.json why you
think it is hard to notice.""",
 "conjunction": """The violation must need a CONJUNCTION of at least three independent conditions to manifest
(for example: a particular option of the operator x one direction x one container kind or context
kind or ellipsoid class or kind of neighbouring step), such that any two of them together are
still fine.  Alternatively it may depend on the SHAPE of the operand set or of the text: only
sets of a particular length (empty, one, at or beyond some internal threshold or a multiple of a
chunk size), only the first or the last tuple/step/parameter, only a value relation between two
parameters (equal, opposite, one a multiple of the other).""",
 "fault-or-consistent": """Pick whichever of the two fits the property best:
(B) FAULT / LIFECYCLE / INTERLEAVING: the violation needs a file that is missing, unreadable,
truncated, changed or appearing between two calls; or an error / refused input / panic-free
failure EARLIER in the same context, thread or process that leaves something behind; or two
threads doing particular things concurrently; or a particular order of otherwise harmless calls.
(C) SELF-CONSISTENT WRONGNESS: the change keeps the obvious internal symmetry intact (forward and
inverse change together so a round trip still closes; two routes that could be compared change
alike; the reported count stays plausible) while an ABSOLUTE statement of the property becomes
false - so that a checker relying on the symmetry alone would be fooled.  It must still be a
violation of the property as written below (quote the clause you break).""",
 "rare-path": """The violation must sit on a RARELY TAKEN PATH that ordinary use and the repository's tests
never reach but the property still quantifies over: an alias or alternative spelling of a
parameter or operator name, a default that only applies when an optional parameter is absent
while another is present, a less used container or accessor, a less used built-in table entry
(ellipsoid, unit, macro), the second of two equivalent syntaxes, a fallback branch, a legacy
form.  Only that path may be affected; the common path must stay correct.""",
 "numeric-edge": """The violation must be confined to an UNUSUAL BUT VALID NUMERIC INPUT CLASS that the property
quantifies over: negative zero, an exactly representable boundary (a pole, the antimeridian, a
cell edge, an integer epoch), values straddling a sign change of an intermediate quantity, a
parameter at the end of its valid range, very large or very small but legal magnitudes, a
degenerate but legal configuration (two equal parameters, a sphere given as an ellipsoid, zero
rotation, scale exactly 1).  Inputs one ulp or a few percent away must remain correct.""",
}

props = {}
for line in open('/verif/properties.jsonl'):
    p = json.loads(line); props[p['id']] = p

used = collections.defaultdict(list)
for f in sorted(glob.glob('/verif/seeded/*/meta.json')):
    n = os.path.basename(os.path.dirname(f)); m = json.load(open(f))
    s = (m.get('summary') or '').replace('\n', ' ')
    used[n[:3]].append("%s: %s" % (', '.join(m.get('files') or []), s[:110]))

tag = sys.argv[1]
os.makedirs('/tmp/seedbrief', exist_ok=True)
for spec in sys.argv[2:]:
    letter, kind = spec.split('=')
    for pid, p in props.items():
        wt = "/tmp/%s-%s-%s" % (tag, pid, letter)
        out = "/tmp/seed-out/%s-%s" % (pid, letter)
        demo = "seeded_%s_%s" % (pid.lower(), letter)
        txt = f"""# Task: a realistic property-breaking change to the Rust crate `geodesy`

You work ONLY inside the git worktree `{wt}` (a checkout of the crate; `cargo build --offline`,
`cargo test --offline` work there; there is no network).  Do NOT read or write anything under
`/verif`, do NOT touch `/repo`, do not commit.  Read the crate's README, `ruminations/` and the
sources you need.

## The property (id {pid}) — "{p['title']}"

{p['statement']}

It is meant to hold for: {p['quantifier']['text']}

## What I need from you

A change to the library sources (`src/**` only; no tests, docs, examples or Cargo files) that

1. BREAKS the property above (a user relying on it would get a wrong result, a missing error, a
   crash, ... as the property describes),
2. still compiles without warnings that were not there before,
3. still passes the ENTIRE existing test suite unedited: `cargo test --offline` in the worktree
   (all targets, including doc tests) — check this yourself,
4. looks like something a maintainer could plausibly commit (an optimisation, a refactoring, a
   'hardening', a port from PROJ, a clean-up), not an obvious sabotage, and is small (one or two
   sites),
5. is HARD TO NOTICE, of this kind:

{KINDS[kind]}

Ordinary use of the feature must not expose it at once.  Changes that merely alter an undocumented
implementation constant, or that break something the property does not state, do not count.

Earlier rounds already used the following sites/ideas for this property — choose a DIFFERENT
site or a clearly different mechanism:
""" + '\n'.join("- " + u for u in used[pid]) + f"""

## Demonstration

Write an integration test `tests/{demo}.rs` (public API only) that PASSES on the unchanged
worktree and FAILS with your change; run it both ways.  It should assert the property for the
specific input/sequence that your change needs, with a clear failure message.

## Deliverables (create the directory `{out}/`)

* `{out}/patch.diff` — `git diff -- src` taken in the worktree root (must apply with
  `git apply` to a clean checkout of the same commit; sources only, NOT the demo test),
* `{out}/demo.rs` — a copy of the demonstration test,
* `{out}/meta.json` — {{"property": "{pid}", "summary": "<what was changed, where, and how it is
  disguised>", "needs": "<exactly what is needed for it to manifest, and what is NOT affected>",
  "files": ["src/..."], "verified": "<the commands you ran and what they printed>"}}.

Finish by replying with a five-line summary (site, mechanism, what it needs, test results).
Leave the worktree as it is (I will remove it).  Keep build output inside the worktree.
"""
        open('/tmp/seedbrief/%s-%s.md' % (pid, letter), 'w').write(txt)
        print(pid, letter, wt)
