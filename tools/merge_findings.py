#!/usr/bin/env python3
"""Merge known_findings.d/*.json drafts into known_findings.json.
For every entry with a replay file, run the replay against the current /repo:
  PASS  -> status fixed (commit from the draft or from the table below)
  FAIL  -> status known (reported for a decision)
Usage: merge_findings.py [--no-run]"""
import json, glob, os, re, subprocess, sys
ROOT = "/verif"
TABLE = [  # (property, regex on key) -> commit
 ("C01", r"roundtrip:.*:wrap", "23901f9"), ("C01", r"omerc:A-alpha90", "e4440c2"), ("C01", r"omerc:B-alpha90", "e4440c2+3980f3a"),
 ("C01", r"merc:lat_0", "2bf11b5"), ("C01", r"laea:south-polar", "fab1bbc"), ("C01", r"geodesic:equatorial", "0e2e174"),
 ("C03", r"macro-inv-not-detected", "60cc07e"), ("C03", r"macro-invocation-omit-leaks", "54dd533"),
 ("C03", r"macro-body-modifier-leaks|pipeline-rejected-inv=true", "8095a5d"),
 ("C04", r"macro-inv-prefix", "60cc07e"), ("C04", r"nested-arg", "cead4b3"),
 ("C08", r"upper-edge", "8d2a567"), ("C08", r"empty-grid-list", "7cf2880"), ("C08", r"t_epoch-sign", "ae0a674"),
 ("C08", r"subgrid-seam", "f77875f"), ("C08", r"deflection-null", "72384ef"),
 ("C09", r"dms_to_dd|dm_to_dd", "79d5af5"), ("C09", r"stack.rs:attempt to subtract", "d3cbfac"),
 ("C10", r"@cart-inv", "6bfc1d7"), ("C10", r"geodesic-inv-reversible", "265f0ef"), ("C10", r"@gridshift-inv", "049e0d7"),
 ("C10", r"laea-(inv|fwd)-polar", "a6ba44f"), ("C10", r"deflection-fwd", "72384ef"), ("C10", r"stack-swap", "6c3e40c"),
 ("C13", r"@merc/", "d9c6121"), ("C13", r"laea-equatorial", "f5bff09"),
 ("C15", r"ntv2/parser.rs", "b1ae55e"), ("C15", r"grid/mod.rs:attempt to (divide|multiply)", "e68110e"),
 ("C15", r"ntv2/mod.rs:called `Option::unwrap", "d7d1371"), ("C15", r"subgrid.rs:attempt to multiply", "c401d69"),
 ("C15", r"name-cycle", "f362a4a"), ("C15", r"min > max|grid/mod.rs:attempt to subtract", "36f5a6c"),
 ("C16", r"layout:macro-inv", "60cc07e"),
]
subjects = {}
for line in subprocess.run(["git","-C","/repo","log","--format=%h %s"],capture_output=True,text=True).stdout.splitlines():
    h, s = line.split(" ", 1); subjects[h] = s
run = "--no-run" not in sys.argv
out = []
old = json.load(open(f"{ROOT}/known_findings.json"))
seen = set()
def add(e):
    k = (e["property"], e["key"], e.get("replay"))
    if k in seen: return
    seen.add(k); out.append(e)
for e in old["findings"]: add(e)
problems = []
for f in sorted(glob.glob(f"{ROOT}/known_findings.d/*.json")):
    for e in json.load(open(f))["findings"]:
        e = dict(e)
        prop, key = e["property"], e["key"]
        if not e.get("commit"):
            for p, rx, c in TABLE:
                if p == prop and re.search(rx, key): e["commit"] = c; break
        result = None
        if run and e.get("replay") and os.path.exists(f"{ROOT}/{e['replay']}"):
            r = subprocess.run([f"{ROOT}/check", prop, "--replay", e["replay"]], capture_output=True, text=True, cwd=ROOT,
                               env={**os.environ, "VERIF_STRICT_REPLAY": "1"})
            txt = r.stdout
            result = "pass" if "REPLAY-PASS" in txt and "VIOLATION" not in txt else ("known" if "REPLAY-KNOWN" in txt else "fail")
        if result == "pass" or (result is None and e.get("status") == "fixed"):
            if not e.get("commit"):
                problems.append(f"{prop} {key}: passes but no commit known"); e["commit"] = "?"
            e["status"] = "fixed"
            first = e["commit"].split("+")[0]
            e["line"] = f"fixed: property={prop} {e['commit']} {e['what']}"
            e["fix_subject"] = subjects.get(first, "")
        else:
            e["status"] = "known"
            e.pop("commit", None)
            if result in ("fail", "known"): problems.append(f"{prop} {key}: STILL FAILS on the current tree ({e.get('replay')})")
        add(e)
old["findings"] = out
json.dump(old, open(f"{ROOT}/known_findings.json", "w"), indent=1, ensure_ascii=False)
print(len(out), "entries;", sum(1 for e in out if e["status"]=="fixed"), "fixed,", sum(1 for e in out if e["status"]=="known"), "known")
for p in problems: print("  !", p)
