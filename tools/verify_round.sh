#!/usr/bin/env bash
# Take finished seeds from /tmp/seed-out into seeded/ and verify each against its own property's check.
#   tools/verify_round.sh [-j N] <seed name> ...      (e.g. C01-n C01-o)
cd "$(dirname "$0")/.." || exit 2
J=4; if [ "$1" = "-j" ]; then J=$2; shift 2; fi
one() {
  n=$1; id=${n%%-*}
  if [ -d /tmp/seed-out/$n ] && [ ! -d seeded/$n ]; then mkdir -p seeded/$n; cp /tmp/seed-out/$n/{patch.diff,demo.rs,meta.json} seeded/$n/ 2>/dev/null; fi
  [ -f seeded/$n/patch.diff ] || { echo "SEED $n: no patch.diff"; return; }
  { echo "== $(date -u +%FT%TZ) verify against $(git -C /repo rev-parse --short HEAD), verif $(git rev-parse --short HEAD)"; tools/seed_verify.sh "$PWD/seeded/$n" $id ${EXTRA:-}; } >> seeded/$n/verification.txt 2>&1
  grep "^SEED $n" seeded/$n/verification.txt | tail -3
}
export -f one
printf '%s\n' "$@" | xargs -P "$J" -I{} bash -c 'one {}'
