#![no_main]
// C17: arbitrary text through parse_proj. Oracle in vcore::fuzzing::proj_target.
use libfuzzer_sys::fuzz_target;
fuzz_target!(|data: &[u8]| {
    vcore::fuzzing::proj_target(data);
});
