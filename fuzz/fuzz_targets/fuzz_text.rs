#![no_main]
// C09 / C17: arbitrary bytes as definition text. Oracle in vcore::fuzzing::text_target.
use libfuzzer_sys::fuzz_target;
fuzz_target!(|data: &[u8]| {
    vcore::fuzzing::text_target(data);
});
