#![no_main]
// C15: arbitrary bytes as a grid file. Oracle in vcore::fuzzing::grid_target.
use libfuzzer_sys::fuzz_target;
fuzz_target!(|data: &[u8]| {
    vcore::fuzzing::grid_target(data);
});
